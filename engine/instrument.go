package main

// Source instrumentation for native replays of interleaving counterexamples (DESIGN §4 Replay):
// copies of the module's non-test files in which every operation the interpreter treats as visible
// (sync/atomic functions, sync.Mutex / sync.RWMutex methods, atomic.Value Load/Store) is preceded by
// verifpt.Point(), produced from /repo's current text with go/ast + go/types. The copies are used
// through `go test -overlay`; nothing is written into /repo.

import (
	"bytes"
	"fmt"
	"go/ast"
	"go/printer"
	"go/token"
	"go/types"
	"os"
	"path/filepath"
	"strings"

	"golang.org/x/tools/go/ast/astutil"
	"golang.org/x/tools/go/packages"
)

const ptPath = "github.com/alibaba/sentinel-golang/zzverif/verifpt"

var lockMethods = map[string]bool{"Lock": true, "Unlock": true, "RLock": true, "RUnlock": true, "TryLock": true, "TryRLock": true}

// instrumentRepo returns an overlay map original file -> instrumented copy (files without visible operations are omitted).
func instrumentRepo(tmp string) (map[string]string, error) {
	cfg := &packages.Config{Mode: packages.NeedName | packages.NeedFiles | packages.NeedSyntax | packages.NeedTypes | packages.NeedTypesInfo | packages.NeedImports | packages.NeedDeps,
		Dir: repoRoot, Env: append(os.Environ(), "GOFLAGS=-mod=mod", "GOPROXY=off", "GOSUMDB=off", "GOTOOLCHAIN=local"),
		Overlay: buildOverlayFor("")} // with the harness files: their own atomics / lock operations are visible operations too
	pkgs, err := packages.Load(cfg, "./api/...", "./core/...", "./util/...")
	if err != nil {
		return nil, err
	}
	out := map[string]string{}
	n := 0
	for _, pkg := range pkgs {
		if len(pkg.Errors) > 0 {
			return nil, fmt.Errorf("instrumentation: package %s does not type-check: %v", pkg.PkgPath, pkg.Errors[0])
		}
		for _, file := range pkg.Syntax {
			name := pkg.Fset.Position(file.Package).Filename
			if !strings.HasPrefix(name, repoRoot) || strings.HasSuffix(name, "_test.go") {
				continue
			}
			// the clock plumbing is an intrinsic of the interpreter: its internal atomics are not visible operations
			if strings.HasSuffix(name, filepath.Join("util", "time.go")) {
				continue
			}
			if instrumentFile(pkg, file) == 0 {
				continue
			}
			astutil.AddImport(pkg.Fset, file, ptPath)
			var buf bytes.Buffer
			if err := printer.Fprint(&buf, pkg.Fset, file); err != nil {
				return nil, err
			}
			n++
			dst := filepath.Join(tmp, fmt.Sprintf("instr_%d_%s", n, filepath.Base(name)))
			if err := os.WriteFile(dst, buf.Bytes(), 0644); err != nil {
				return nil, err
			}
			out[name] = dst
		}
	}
	return out, nil
}

func isSyncRecv(t types.Type) bool {
	if p, ok := t.(*types.Pointer); ok {
		t = p.Elem()
	}
	n, ok := t.(*types.Named)
	if !ok || n.Obj().Pkg() == nil {
		return false
	}
	switch n.Obj().Pkg().Path() + "." + n.Obj().Name() {
	case "sync.Mutex", "sync.RWMutex", "sync/atomic.Value":
		return true
	}
	return false
}

// visibleCall classifies a call: 1 = sync/atomic function (wrap the first argument), 2 = method of a
// mutex / atomic.Value (wrap the receiver), 0 = not visible.
func visibleCall(pkg *packages.Package, call *ast.CallExpr) int {
	sel, ok := call.Fun.(*ast.SelectorExpr)
	if !ok {
		return 0
	}
	if s, ok := pkg.TypesInfo.Selections[sel]; ok {
		fn, ok := s.Obj().(*types.Func)
		if !ok || fn.Pkg() == nil {
			return 0
		}
		recv := fn.Type().(*types.Signature).Recv()
		if recv == nil || !isSyncRecv(recv.Type()) {
			return 0
		}
		switch fn.Pkg().Path() {
		case "sync":
			if lockMethods[fn.Name()] {
				return 2
			}
		case "sync/atomic":
			if fn.Name() == "Load" || fn.Name() == "Store" {
				return 2
			}
		}
		return 0
	}
	if fn, ok := pkg.TypesInfo.Uses[sel.Sel].(*types.Func); ok && fn.Pkg() != nil && fn.Pkg().Path() == "sync/atomic" && len(call.Args) > 0 {
		return 1
	}
	return 0
}

func ptCall(x ast.Expr) ast.Expr {
	return &ast.CallExpr{Fun: &ast.SelectorExpr{X: ast.NewIdent("verifpt"), Sel: ast.NewIdent("A")}, Args: []ast.Expr{x}}
}

func rewriteCall(pkg *packages.Package, call *ast.CallExpr) bool {
	switch visibleCall(pkg, call) {
	case 1:
		call.Args[0] = ptCall(call.Args[0])
		return true
	case 2:
		sel := call.Fun.(*ast.SelectorExpr)
		x := sel.X
		if _, isPtr := pkg.TypesInfo.TypeOf(x).Underlying().(*types.Pointer); !isPtr {
			x = &ast.UnaryExpr{Op: token.AND, X: x} // addressable receiver: operate on its address, never on a copy
		}
		sel.X = ptCall(x)
		return true
	}
	return false
}

func instrumentFile(pkg *packages.Package, file *ast.File) int {
	n := 0
	astutil.Apply(file, func(c *astutil.Cursor) bool {
		switch st := c.Node().(type) {
		case *ast.DeferStmt:
			// `defer mu.Unlock()` evaluates its operands now: the point must fire when the call runs
			if visibleCall(pkg, st.Call) != 0 {
				inner := &ast.CallExpr{Fun: st.Call.Fun, Args: st.Call.Args, Ellipsis: st.Call.Ellipsis}
				rewriteCall(pkg, inner)
				st.Call = &ast.CallExpr{Fun: &ast.FuncLit{Type: &ast.FuncType{Params: &ast.FieldList{}},
					Body: &ast.BlockStmt{List: []ast.Stmt{&ast.ExprStmt{X: inner}}}}}
				n++
				return false
			}
		case *ast.CallExpr:
			if rewriteCall(pkg, st) {
				n++
			}
		}
		return true
	}, nil)
	return n
}
