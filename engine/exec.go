package main

// SSA instruction semantics (modelled on x/tools/go/ssa/interp; scalars are terms).

import (
	"fmt"
	"go/constant"
	"go/token"
	"go/types"
	"math"
	"strings"

	"golang.org/x/tools/go/ssa"
)

func (w *Worker) get(s *State, f *Frame, v ssa.Value) Value {
	switch x := v.(type) {
	case nil:
		return nil
	case *ssa.Const:
		return constVal(x)
	case *ssa.Global:
		return w.globalPtr(s, x)
	case *ssa.Function:
		return &Closure{fn: x}
	case *ssa.Builtin:
		return x
	}
	r, ok := f.env[v]
	if !ok {
		unsupported("no value for %s (%T) in %s", v.Name(), v, f.fn)
	}
	return r
}

func (w *Worker) globalPtr(s *State, x *ssa.Global) Ptr {
	id, ok := w.eng.globals[x]
	if !ok {
		unsupported("unknown global %s", x.String())
	}
	if _, ok := s.heap[id]; !ok {
		s.heap[id] = zero(x.Type().(*types.Pointer).Elem())
		// sentinel errors of library packages whose init is not executed: distinct opaque values
		if x.Pkg != nil && !strings.HasPrefix(x.Pkg.Pkg.Path(), modPrefix) && types.Identical(x.Type().(*types.Pointer).Elem(), types.Universe.Lookup("error").Type()) {
			s.heap[id] = Iface{t: opaqueErrType, v: Opaque{x.String()}}
		}
	}
	return Ptr{id: id}
}

func constVal(c *ssa.Const) Value {
	t := c.Type()
	if c.Value == nil {
		return zero(t)
	}
	if w, _, ok := bvInfo(t); ok {
		if c.Value.Kind() == constant.Float {
			f, _ := constant.Float64Val(c.Value)
			return BV(w, uint64(int64(f)))
		}
		if i, ok := constant.Int64Val(constant.ToInt(c.Value)); ok {
			return BV(w, uint64(i))
		}
		u, _ := constant.Uint64Val(constant.ToInt(c.Value))
		return BV(w, u)
	}
	if isBool(t) {
		return Bool(constant.BoolVal(c.Value))
	}
	if isString(t) {
		return constant.StringVal(c.Value)
	}
	if isFloatT(t) {
		f, _ := constant.Float64Val(c.Value)
		return floatConst(f)
	}
	unsupported("const %v : %v", c.Value, t)
	return nil
}

func floatConst(f float64) Value {
	if f == float64(int64(f)) && f < 1e15 && f > -1e15 && !(f == 0 && math.Signbit(f)) {
		return FInt{BV(64, uint64(int64(f)))}
	}
	return FConstT(f)
}

func asTerm(v Value) *Term {
	t, ok := v.(*Term)
	if !ok {
		unsupported("expected scalar, got %T", v)
	}
	return t
}

// valueEq returns a Bool term for v1 == v2 (Go == semantics).
func valueEq(a, b Value) *Term {
	switch x := a.(type) {
	case *Term:
		if x.w == FP {
			r, _ := floatBin(nil, nil, token.EQL, a, b)
			return r.(*Term)
		}
		if _, isF := b.(FInt); isF {
			r, _ := floatBin(nil, nil, token.EQL, a, b)
			return r.(*Term)
		}
		y := asTerm(b)
		if x.w == 0 {
			return BoolEq(x, y)
		}
		return Cmp("=", x, y)
	case string:
		return Bool(x == b.(string))
	case Ptr:
		return Bool(ptrEq(x, b.(Ptr)))
	case Iface:
		y := b.(Iface)
		if x.t == nil || y.t == nil {
			return Bool(x.t == nil && y.t == nil)
		}
		if !types.Identical(x.t, y.t) {
			return Bool(false)
		}
		return valueEq(x.v, y.v)
	case Tuple:
		y := b.(Tuple)
		r := Bool(true)
		for i := range x {
			r = And(r, valueEq(x[i], y[i]))
		}
		return r
	case FInt, FCmp:
		if v, ok := floatBin(nil, nil, token.EQL, a, b); ok {
			return v.(*Term)
		}
		unsupported("float equality %T %T", a, b)
	case Opaque:
		y, ok := b.(Opaque)
		return Bool(ok && x.what == y.what)
	case *Closure:
		y, _ := b.(*Closure)
		return Bool(x == nil && y == nil)
	case MapRef:
		return Bool(x.id == b.(MapRef).id)
	case ChanRef:
		return Bool(x.id == b.(ChanRef).id)
	case SliceV:
		return Bool(x.isNil && b.(SliceV).isNil)
	case nil:
		return Bool(b == nil)
	}
	unsupported("valueEq %T", a)
	return nil
}

func (w *Worker) step(s *State) {
	f := s.frames[len(s.frames)-1]
	if f.ip >= len(f.block.Instrs) {
		unsupported("fell off block")
	}
	in := f.block.Instrs[f.ip]
	switch x := in.(type) {
	case *ssa.DebugRef:
		f.ip++
	case *ssa.Alloc:
		p := s.alloc(zero(x.Type().(*types.Pointer).Elem()))
		f.env[x] = p
		f.ip++
	case *ssa.Store:
		s.store(w.get(s, f, x.Addr).(Ptr), w.get(s, f, x.Val))
		f.ip++
	case *ssa.UnOp:
		f.env[x] = w.unop(s, f, x)
		f.ip++
	case *ssa.BinOp:
		f.env[x] = w.binop(s, x.Op, w.get(s, f, x.X), w.get(s, f, x.Y), x.X.Type(), x.Type())
		f.ip++
	case *ssa.Convert:
		f.env[x] = w.convert(s, w.get(s, f, x.X), x.X.Type(), x.Type())
		f.ip++
	case *ssa.ChangeType:
		f.env[x] = w.get(s, f, x.X)
		f.ip++
	case *ssa.ChangeInterface:
		f.env[x] = w.get(s, f, x.X)
		f.ip++
	case *ssa.MakeInterface:
		f.env[x] = Iface{t: x.X.Type(), v: w.get(s, f, x.X)}
		f.ip++
	case *ssa.FieldAddr:
		p := w.get(s, f, x.X).(Ptr)
		if p.isNil() {
			throwRT("invalid memory address or nil pointer dereference (field address)")
		}
		f.env[x] = p.field(x.Field)
		f.ip++
	case *ssa.Field:
		f.env[x] = w.get(s, f, x.X).(Tuple)[x.Field]
		f.ip++
	case *ssa.IndexAddr:
		w.indexAddr(s, f, x)
	case *ssa.Index:
		base := w.get(s, f, x.X)
		idx := int(int64(w.concretize(s, asTerm(w.get(s, f, x.Index)))))
		switch b := base.(type) {
		case Tuple:
			if idx < 0 || idx >= len(b) {
				throwRT("index out of range")
			}
			f.env[x] = b[idx]
		case string:
			if idx < 0 || idx >= len(b) {
				throwRT("index out of range")
			}
			f.env[x] = BV(8, uint64(b[idx]))
		default:
			unsupported("Index on %T", base)
		}
		f.ip++
	case *ssa.Slice:
		f.env[x] = w.slice(s, f, x)
		f.ip++
	case *ssa.MakeSlice:
		n := int(int64(w.concretize(s, asTerm(w.get(s, f, x.Len)))))
		c := int(int64(w.concretize(s, asTerm(w.get(s, f, x.Cap)))))
		if n < 0 || c < n {
			throwRT("makeslice: len out of range")
		}
		if c > 1<<16 {
			unsupported("makeslice of %d elements", c)
		}
		el := x.Type().Underlying().(*types.Slice).Elem()
		arr := make(Tuple, c)
		z := zero(el)
		for i := range arr {
			arr[i] = z
		}
		f.env[x] = SliceV{arr: s.alloc(arr), len: n, cap: c}
		f.ip++
	case *ssa.MakeMap:
		p := s.alloc(&MapObj{})
		f.env[x] = MapRef{id: p.id}
		f.ip++
	case *ssa.MapUpdate:
		w.mapUpdate(s, w.get(s, f, x.Map).(MapRef), w.get(s, f, x.Key), w.get(s, f, x.Value))
		f.ip++
	case *ssa.Lookup:
		f.env[x] = w.lookup(s, f, x)
		f.ip++
	case *ssa.Range:
		f.env[x] = w.mkRange(s, w.get(s, f, x.X))
		f.ip++
	case *ssa.Next:
		itp := w.get(s, f, x.Iter).(Ptr)
		it := s.load(itp).(*IterState)
		if it.pos >= len(it.keys) {
			f.env[x] = Tuple{Bool(false), nil, nil}
		} else {
			f.env[x] = Tuple{Bool(true), it.keys[it.pos], it.vals[it.pos]}
			s.store(itp, &IterState{keys: it.keys, vals: it.vals, pos: it.pos + 1})
		}
		f.ip++
	case *ssa.Extract:
		f.env[x] = w.get(s, f, x.Tuple).(Tuple)[x.Index]
		f.ip++
	case *ssa.MakeClosure:
		fn := x.Fn.(*ssa.Function)
		env := make([]Value, len(x.Bindings))
		for i, b := range x.Bindings {
			env[i] = w.get(s, f, b)
		}
		f.env[x] = &Closure{fn: fn, env: env}
		f.ip++
	case *ssa.Phi:
		var phis []*ssa.Phi
		i := f.ip
		for ; i < len(f.block.Instrs); i++ {
			p, ok := f.block.Instrs[i].(*ssa.Phi)
			if !ok {
				break
			}
			phis = append(phis, p)
		}
		idx := -1
		for k, pr := range f.block.Preds {
			if pr == f.prev {
				idx = k
				break
			}
		}
		if idx < 0 {
			unsupported("phi without predecessor")
		}
		vals := make([]Value, len(phis))
		for k, p := range phis {
			vals[k] = w.get(s, f, p.Edges[idx])
		}
		for k, p := range phis {
			f.env[p] = vals[k]
		}
		f.ip = i
	case *ssa.TypeAssert:
		f.env[x] = w.typeAssert(s, f, x)
		f.ip++
	case *ssa.Jump:
		f.prev, f.block, f.ip = f.block, f.block.Succs[0], 0
	case *ssa.If:
		c := asTerm(w.get(s, f, x.Cond))
		w.branch(s, f, c)
	case *ssa.Return:
		var res Value
		switch len(x.Results) {
		case 0:
		case 1:
			res = w.get(s, f, x.Results[0])
		default:
			tu := make(Tuple, len(x.Results))
			for i, r := range x.Results {
				tu[i] = w.get(s, f, r)
			}
			res = tu
		}
		s.frames = s.frames[:len(s.frames)-1]
		if len(s.frames) > 0 && f.call != nil {
			c := s.frames[len(s.frames)-1]
			c.env[f.call] = res
		}
		if f.deferCall && len(s.frames) > 0 && s.frames[len(s.frames)-1].unwinding {
			w.unwind(s)
		}
	case *ssa.Defer:
		args := w.callArgs(s, f, &x.Call)
		fn := w.callee(s, f, &x.Call, &args)
		f.defers = append(f.defers, Deferred{fn: fn, args: args})
		f.ip++
	case *ssa.RunDefers:
		if len(f.defers) == 0 {
			f.ip++
			return
		}
		d := f.defers[len(f.defers)-1]
		f.defers = f.defers[:len(f.defers)-1]
		w.invoke(s, f, d.fn, d.args, nil, "defer") // stays on RunDefers until empty
	case *ssa.Call:
		args := w.callArgs(s, f, &x.Call)
		fn := w.callee(s, f, &x.Call, &args)
		w.invoke(s, f, fn, args, x, "")
	case *ssa.Go:
		if ghostInt(s, "flag/go-threads") != 0 {
			// the goroutine becomes a thread of the schedule (it runs when the harness lets it: rt.Settle / rt.Join)
			args := w.callArgs(s, f, &x.Call)
			fnv := w.callee(s, f, &x.Call, &args)
			cl, ok := fnv.(*Closure)
			if !ok || cl == nil {
				unsupported("go statement on %T", fnv)
			}
			nf := newFrame(cl.fn, args, nil)
			for k, fv := range cl.fn.FreeVars {
				nf.env[fv] = cl.env[k]
			}
			if len(s.threads) == 0 {
				s.threads = []*Thread{{}}
			}
			s.threads = append(s.threads, &Thread{frames: []*Frame{nf}})
			s.job.stub("go-statement-as-thread:" + cl.fn.String())
			f.ip++
			return
		}
		s.job.stub("go-statement-dropped:" + f.fn.String())
		f.ip++
	case *ssa.Panic:
		panic(goPanic{w.get(s, f, x.X)})
	case *ssa.MakeChan:
		c := int(int64(w.concretize(s, asTerm(w.get(s, f, x.Size)))))
		p := s.alloc(&ChanObj{cap: c})
		f.env[x] = ChanRef{id: p.id}
		f.ip++
	case *ssa.Send:
		ch := w.get(s, f, x.Chan).(ChanRef)
		co := s.cell(ch.id).(*ChanObj)
		if co.closed {
			throwRT("send on closed channel")
		}
		if len(co.buf) >= co.cap && !(len(s.threads) > 1 && chanSendReady(w, s, ch.id)) {
			unsupported("blocking channel send")
		}
		s.heap[ch.id] = &ChanObj{buf: append(append([]Value(nil), co.buf...), w.get(s, f, x.X)), cap: co.cap, closed: co.closed}
		f.ip++
	case *ssa.Select:
		f.env[x] = w.selectStmt(s, f, x)
		f.ip++
	default:
		unsupported("instruction %T: %s", in, in)
	}
}

// selectStmt supports the non-blocking forms used by the code base (send with default).
func (w *Worker) selectStmt(s *State, f *Frame, x *ssa.Select) Value {
	if x.Blocking && (len(s.threads) <= 1 || !selectReady(w, s, f, x)) {
		unsupported("blocking select with no ready case")
	}
	nrecv := 0
	for _, st := range x.States {
		if st.Dir == types.RecvOnly {
			nrecv++
		}
	}
	res := make(Tuple, 2+nrecv)
	res[0], res[1] = BV(64, mask(64)), Bool(false)
	ri := 2
	for i, st := range x.States {
		ch := w.get(s, f, st.Chan).(ChanRef)
		if ch.id == 0 {
			continue
		}
		co := s.cell(ch.id).(*ChanObj)
		if st.Dir == types.SendOnly {
			if len(co.buf) < co.cap || (len(s.threads) > 1 && chanSendReady(w, s, ch.id)) {
				s.heap[ch.id] = &ChanObj{buf: append(append([]Value(nil), co.buf...), w.get(s, f, st.Send)), cap: co.cap}
				res[0] = BV(64, uint64(i))
				break
			}
		} else {
			el := st.Chan.Type().Underlying().(*types.Chan).Elem()
			res[ri] = zero(el)
			if len(co.buf) > 0 {
				res[ri] = co.buf[0]
				s.heap[ch.id] = &ChanObj{buf: append([]Value(nil), co.buf[1:]...), cap: co.cap, closed: co.closed}
				res[0], res[1] = BV(64, uint64(i)), Bool(true)
				break
			}
			if co.closed {
				res[0], res[1] = BV(64, uint64(i)), Bool(false)
				break
			}
			ri++
		}
	}
	for k := 2; k < len(res); k++ {
		if res[k] == nil {
			res[k] = BV(64, 0)
		}
	}
	return res
}

func (w *Worker) unop(s *State, f *Frame, x *ssa.UnOp) Value {
	v := w.get(s, f, x.X)
	switch x.Op {
	case token.MUL:
		return s.load(v.(Ptr))
	case token.NOT:
		return Not(asTerm(v))
	case token.SUB:
		if fi, ok := v.(FInt); ok {
			if fi.t.isConst() && fi.t.val == 0 {
				return FConstT(math.Copysign(0, -1))
			}
			return FInt{BVNeg(fi.t)}
		}
		if t, ok := v.(*Term); ok && t.w == FP {
			return FUn("fp.neg", t)
		}
		return BVNeg(asTerm(v))
	case token.XOR:
		return BVNot(asTerm(v))
	case token.ARROW:
		ch := v.(ChanRef)
		co := s.cell(ch.id).(*ChanObj)
		if len(co.buf) == 0 {
			if co.closed {
				z := zero(x.X.Type().Underlying().(*types.Chan).Elem())
				if x.CommaOk {
					return Tuple{z, Bool(false)}
				}
				return z
			}
			unsupported("blocking channel receive")
		}
		s.heap[ch.id] = &ChanObj{buf: append([]Value(nil), co.buf[1:]...), cap: co.cap, closed: co.closed}
		if x.CommaOk {
			return Tuple{co.buf[0], Bool(true)}
		}
		return co.buf[0]
	}
	unsupported("unop %v", x.Op)
	return nil
}

func isFloatV(v Value) bool {
	switch x := v.(type) {
	case FInt, FCmp:
		return true
	case *Term:
		return x.w == FP
	}
	return false
}

func (w *Worker) binop(s *State, op token.Token, a, b Value, at, rt types.Type) Value {
	if sa, ok := a.(string); ok {
		sb := b.(string)
		switch op {
		case token.ADD:
			return sa + sb
		case token.EQL:
			return Bool(sa == sb)
		case token.NEQ:
			return Bool(sa != sb)
		case token.LSS:
			return Bool(sa < sb)
		case token.GTR:
			return Bool(sa > sb)
		case token.LEQ:
			return Bool(sa <= sb)
		case token.GEQ:
			return Bool(sa >= sb)
		}
		unsupported("string binop %v", op)
	}
	if isFloatV(a) || isFloatV(b) {
		if v, ok := floatBin(w, s, op, a, b); ok {
			return v
		}
		unsupported("float binop %v on %T %T at %s", op, a, b, where(s))
	}
	switch op {
	case token.EQL:
		return valueEq(a, b)
	case token.NEQ:
		return Not(valueEq(a, b))
	}
	if ad, ok := a.(Addr); ok && op == token.ADD {
		return Addr{ad.p, BinBV("bvadd", ad.off, asTerm(b))}
	}
	x, y := asTerm(a), asTerm(b)
	if x.w == 0 {
		switch op {
		case token.AND, token.LAND:
			return And(x, y)
		case token.OR, token.LOR:
			return Or(x, y)
		}
		unsupported("bool binop %v", op)
	}
	_, signed, _ := bvInfo(at)
	switch op {
	case token.ADD:
		return BinBV("bvadd", x, y)
	case token.SUB:
		return BinBV("bvsub", x, y)
	case token.MUL:
		return BinBV("bvmul", x, y)
	case token.QUO, token.REM:
		z := Cmp("=", y, BV(y.w, 0))
		if !z.isFalse() {
			if w.decide(s, z) {
				throwRT("integer divide by zero")
			}
		}
		name := map[bool]map[token.Token]string{true: {token.QUO: "bvsdiv", token.REM: "bvsrem"}, false: {token.QUO: "bvudiv", token.REM: "bvurem"}}[signed][op]
		return BinBV(name, x, y)
	case token.AND:
		return BinBV("bvand", x, y)
	case token.OR:
		return BinBV("bvor", x, y)
	case token.XOR:
		return BinBV("bvxor", x, y)
	case token.AND_NOT:
		return BinBV("bvand", x, BVNot(y))
	case token.SHL, token.SHR:
		if y.w < x.w {
			y = ZExt(y, x.w)
		} else if y.w > x.w {
			if y.isConst() {
				if y.val >= uint64(x.w) {
					y = BV(x.w, uint64(x.w))
				} else {
					y = BV(x.w, y.val)
				}
			} else {
				unsupported("wide symbolic shift count")
			}
		}
		if op == token.SHL {
			return BinBV("bvshl", x, y)
		}
		if signed {
			return BinBV("bvashr", x, y)
		}
		return BinBV("bvlshr", x, y)
	case token.LSS, token.LEQ, token.GTR, token.GEQ:
		lt, le := "bvult", "bvule"
		if signed {
			lt, le = "bvslt", "bvsle"
		}
		switch op {
		case token.LSS:
			return Cmp(lt, x, y)
		case token.LEQ:
			return Cmp(le, x, y)
		case token.GTR:
			return Cmp(lt, y, x)
		default:
			return Cmp(le, y, x)
		}
	}
	unsupported("binop %v", op)
	return nil
}

// ---------------- floats (DESIGN §3.3) ----------------

func concreteFloat(v Value) (float64, bool) {
	switch x := v.(type) {
	case *Term:
		if x.w == FP && x.isConst() {
			return x.fval(), true
		}
	case FInt:
		if x.t.isConst() {
			return float64(int64(x.t.val)), true
		}
	}
	return 0, false
}

func fcmpCeil(c FCmp) *Term { return BinBV("bvadd", c.fl, Ite(c.frac, BV(64, 1), BV(64, 0))) }

// toFP converts any float value to a Float64 term (FCmp has no such form).
func toFP(v Value) (*Term, bool) {
	switch x := v.(type) {
	case *Term:
		if x.w == FP {
			return x, true
		}
	case FInt:
		return FFromBV(x.t, true), true
	case FCmp:
		// value = floor + 0.5*frac exactly (a multiple of one half): h/2 is exact in float64
		return FBin("fp.div", FFromBV(halfTerm(x), false), FConstT(2)), true
	}
	return nil, false
}

// halfTerm returns 2*value of a comparison float as a 64-bit term.
func halfTerm(c FCmp) *Term {
	return BinBV("bvadd", BinBV("bvmul", c.fl, BV(64, 2)), Ite(c.frac, BV(64, 1), BV(64, 0)))
}

var mirror = map[token.Token]token.Token{token.GTR: token.LSS, token.LSS: token.GTR, token.GEQ: token.LEQ, token.LEQ: token.GEQ, token.EQL: token.EQL, token.NEQ: token.NEQ}

func small53(t *Term) bool { return nonneg(t) && umax(t) < 1<<53 }

// floatBin handles arithmetic/comparison of floats: concrete folding, exact-integer floats,
// comparison-only floats, and the FP theory as the general case. w/s may be nil (no solver help).
func floatBin(w *Worker, s *State, op token.Token, a, b Value) (Value, bool) {
	fa, aConc := concreteFloat(a)
	fb, bConc := concreteFloat(b)
	if aConc && bConc {
		switch op {
		case token.ADD:
			return floatConst(fa + fb), true
		case token.SUB:
			return floatConst(fa - fb), true
		case token.MUL:
			return floatConst(fa * fb), true
		case token.QUO:
			return floatConst(fa / fb), true
		case token.EQL:
			return Bool(fa == fb), true
		case token.NEQ:
			return Bool(fa != fb), true
		case token.LSS:
			return Bool(fa < fb), true
		case token.LEQ:
			return Bool(fa <= fb), true
		case token.GTR:
			return Bool(fa > fb), true
		case token.GEQ:
			return Bool(fa >= fb), true
		}
	}
	ai, aIsI := a.(FInt)
	bi, bIsI := b.(FInt)
	ac, aIsC := a.(FCmp)
	bc, bIsC := b.(FCmp)
	// x*1.0, x/1.0 are exact identities
	if bConc && fb == 1.0 && (op == token.MUL || op == token.QUO) {
		return a, true
	}
	if aConc && fa == 1.0 && op == token.MUL {
		return b, true
	}
	// exact integer against a concrete float: NaN compares false; finite via floor/ceil
	if aIsI && bConc && !bIsI {
		switch {
		case fb != fb:
			switch op {
			case token.EQL, token.LSS, token.LEQ, token.GTR, token.GEQ:
				return Bool(false), true
			case token.NEQ:
				return Bool(true), true
			}
		case math.IsInf(fb, 0):
			pos := fb > 0
			switch op {
			case token.LSS, token.LEQ:
				return Bool(pos), true
			case token.GTR, token.GEQ:
				return Bool(!pos), true
			case token.EQL:
				return Bool(false), true
			case token.NEQ:
				return Bool(true), true
			}
		case math.Abs(fb) < 1e18:
			fl, ce := BV(64, uint64(int64(math.Floor(fb)))), BV(64, uint64(int64(math.Ceil(fb))))
			switch op {
			case token.GTR:
				return Cmp("bvslt", fl, ai.t), true
			case token.LEQ:
				return Cmp("bvsle", ai.t, fl), true
			case token.LSS:
				return Cmp("bvslt", ai.t, ce), true
			case token.GEQ:
				return Cmp("bvsle", ce, ai.t), true
			case token.EQL:
				return And(Bool(fl == ce), Cmp("=", ai.t, fl)), true
			case token.NEQ:
				return Not(And(Bool(fl == ce), Cmp("=", ai.t, fl))), true
			}
		}
	}
	if bIsI && aConc && !aIsI {
		if mo, ok := mirror[op]; ok {
			return floatBin(w, s, mo, b, a)
		}
	}
	switch {
	case aIsI && bIsI:
		switch op {
		case token.ADD, token.SUB:
			var r *Term
			if op == token.ADD {
				r = BinBV("bvadd", ai.t, bi.t)
			} else {
				r = BinBV("bvsub", ai.t, bi.t)
			}
			if small53(ai.t) && small53(bi.t) && (op == token.SUB || small53(r)) {
				return FInt{r}, true
			}
			if w != nil && w.provesSmall(s, ai.t) && w.provesSmall(s, bi.t) && w.provesSmall(s, r) {
				return FInt{r}, true
			}
		case token.MUL:
			r := BinBV("bvmul", ai.t, bi.t)
			if small53(ai.t) && small53(bi.t) && small53(r) {
				return FInt{r}, true
			}
		case token.EQL:
			return Cmp("=", ai.t, bi.t), true
		case token.NEQ:
			return Not(Cmp("=", ai.t, bi.t)), true
		case token.LSS:
			return Cmp("bvslt", ai.t, bi.t), true
		case token.LEQ:
			return Cmp("bvsle", ai.t, bi.t), true
		case token.GTR:
			return Cmp("bvslt", bi.t, ai.t), true
		case token.GEQ:
			return Cmp("bvsle", bi.t, ai.t), true
		}
	case aIsI && bIsC: // i ? T
		switch op {
		case token.GTR:
			return Cmp("bvslt", bc.fl, ai.t), true
		case token.LEQ:
			return Cmp("bvsle", ai.t, bc.fl), true
		case token.LSS:
			return Cmp("bvslt", ai.t, fcmpCeil(bc)), true
		case token.GEQ:
			return Cmp("bvsle", fcmpCeil(bc), ai.t), true
		case token.EQL:
			return And(Not(bc.frac), Cmp("=", ai.t, bc.fl)), true
		case token.NEQ:
			return Not(And(Not(bc.frac), Cmp("=", ai.t, bc.fl))), true
		}
	case aIsC && bIsI:
		if mo, ok := mirror[op]; ok {
			return floatBin(w, s, mo, b, a)
		}
	case aIsC && bIsC:
		// both are multiples of one half: compare twice their values as integers
		ha, hb := halfTerm(ac), halfTerm(bc)
		switch op {
		case token.EQL:
			return Cmp("=", ha, hb), true
		case token.NEQ:
			return Not(Cmp("=", ha, hb)), true
		case token.LSS:
			return Cmp("bvult", ha, hb), true
		case token.LEQ:
			return Cmp("bvule", ha, hb), true
		case token.GTR:
			return Cmp("bvult", hb, ha), true
		case token.GEQ:
			return Cmp("bvule", hb, ha), true
		}
	case aIsC || bIsC:
		// comparison-only float against a concrete value
		c, o, cop := ac, b, op
		if bIsC {
			c, o, cop = bc, a, mirror[op]
		}
		if fo, ok := concreteFloat(o); ok {
			if fo != fo {
				return Bool(cop == token.NEQ), true
			}
			if math.IsInf(fo, 0) {
				return floatBin(w, s, cop, FInt{BV(64, 0)}, o)
			}
			if math.Abs(fo) < 1e17 {
				// c.value ? fo  <=>  h ? 2*fo with h = 2*c.value an integer >= 0
				h := halfTerm(c)
				two := 2 * fo
				lo, hi := BV(64, uint64(int64(math.Floor(two)))), BV(64, uint64(int64(math.Ceil(two))))
				switch cop {
				case token.LSS:
					return Cmp("bvslt", h, hi), true
				case token.LEQ:
					return Cmp("bvsle", h, lo), true
				case token.GTR:
					return Cmp("bvslt", lo, h), true
				case token.GEQ:
					return Cmp("bvsle", hi, h), true
				case token.EQL:
					return And(Bool(math.Floor(two) == two), Cmp("=", h, lo)), true
				case token.NEQ:
					return Not(And(Bool(math.Floor(two) == two), Cmp("=", h, lo))), true
				}
			}
		}
	}
	// general case: FP theory
	ta, ok1 := toFP(a)
	tb, ok2 := toFP(b)
	if !ok1 || !ok2 {
		return nil, false
	}
	switch op {
	case token.ADD:
		return FBin("fp.add", ta, tb), true
	case token.SUB:
		return FBin("fp.sub", ta, tb), true
	case token.MUL:
		return FBin("fp.mul", ta, tb), true
	case token.QUO:
		return FBin("fp.div", ta, tb), true
	case token.EQL:
		return FCmpT("fp.eq", ta, tb), true
	case token.NEQ:
		return Not(FCmpT("fp.eq", ta, tb)), true
	case token.LSS:
		return FCmpT("fp.lt", ta, tb), true
	case token.LEQ:
		return FCmpT("fp.leq", ta, tb), true
	case token.GTR:
		return FCmpT("fp.lt", tb, ta), true
	case token.GEQ:
		return FCmpT("fp.leq", tb, ta), true
	}
	return nil, false
}

func (w *Worker) convert(s *State, v Value, from, to types.Type) Value {
	fw, fsigned, fok := bvInfo(from)
	tw, tsigned, tok := bvInfo(to)
	if isFloatT(to) && isFloatT(from) {
		return v
	}
	if isFloatT(to) && fok {
		t := asTerm(v)
		var t64 *Term
		if fsigned {
			t64 = SExt(t, 64)
		} else {
			t64 = ZExt(t, 64)
		}
		if !fsigned && !nonneg(t64) {
			// uint64 that may exceed the signed range: only the FP theory represents it
			if r, _ := w.sat(s, Cmp("bvule", BV(64, 1<<53), t64)); r == "unsat" {
				return FInt{t64}
			}
			return FFromBV(t64, false)
		}
		if w.provesSmall(s, t64) {
			return FInt{t64}
		}
		return FFromBV(t64, true)
	}
	if isFloatT(from) && tok {
		switch x := v.(type) {
		case FInt:
			return Trunc(x.t, tw)
		case FCmp:
			return Trunc(x.fl, tw)
		case *Term:
			s.job.stub("float->int conversion in the FP theory")
			return FToBV(x, tw, tsigned)
		}
		unsupported("float->int conversion of %T at %s", v, where(s))
	}
	fb, _ := from.Underlying().(*types.Basic)
	tb, _ := to.Underlying().(*types.Basic)
	switch {
	case fok && tok:
		if a, isAddr := v.(Addr); isAddr {
			return a
		}
		t := asTerm(v)
		if tw == fw {
			return t
		}
		if tw < fw {
			return Trunc(t, tw)
		}
		if fsigned {
			return SExt(t, tw)
		}
		return ZExt(t, tw)
	case tb != nil && tb.Kind() == types.UnsafePointer:
		if a, ok := v.(Addr); ok {
			var off int
			if a.off.op == "bvmul" && a.off.args[1].isConst() && a.off.args[1].val == 8 {
				off = 8 * int(w.concretize(s, a.off.args[0])) // concretise the index, not the scaled offset
			} else {
				off = int(w.concretize(s, a.off))
			}
			if off%8 != 0 {
				unsupported("unaligned address")
			}
			np := append([]int(nil), a.p.path...)
			if len(np) == 0 {
				unsupported("address arithmetic on a non-element pointer")
			}
			np[len(np)-1] += off / 8
			return Ptr{a.p.id, np}
		}
		return v
	case fb != nil && fb.Kind() == types.UnsafePointer:
		if tok {
			return Addr{p: v.(Ptr), off: BV(64, 0)}
		}
		return w.reinterpret(s, v.(Ptr), to)
	case isString(from) && isString(to):
		return v
	case isString(to):
		if sl, ok := v.(SliceV); ok { // []byte -> string, concrete bytes only
			bs := make([]byte, sl.len)
			for i, e := range s.sliceElems(sl) {
				t := asTerm(e)
				if !t.isConst() {
					unsupported("[]byte->string with symbolic bytes")
				}
				bs[i] = byte(t.val)
			}
			return string(bs)
		}
		if t, ok := v.(*Term); ok && t.isConst() {
			return string(rune(t.val))
		}
	case isString(from):
		if sl, ok := to.Underlying().(*types.Slice); ok {
			str := v.(string)
			if b, isB := sl.Elem().Underlying().(*types.Basic); isB && b.Kind() == types.Uint8 {
				arr := make(Tuple, len(str))
				for i := 0; i < len(str); i++ {
					arr[i] = BV(8, uint64(str[i]))
				}
				return SliceV{arr: s.alloc(arr), len: len(str), cap: len(str)}
			}
		}
	}
	unsupported("convert %v -> %v", from, to)
	return nil
}

// reinterpret handles the unsafe idioms of the code base.
func (w *Worker) reinterpret(s *State, p Ptr, to types.Type) Value {
	pt, ok := to.Underlying().(*types.Pointer)
	if !ok {
		unsupported("reinterpret to %v", to)
	}
	if n, ok := pt.Elem().(*types.Named); ok && n.Obj().Name() == "SliceHeader" {
		sl := s.load(p).(SliceV)
		data := Ptr{sl.arr.id, append(append([]int(nil), sl.arr.path...), sl.off)}
		hp := s.alloc(Tuple{data, BV(64, uint64(sl.len)), BV(64, uint64(sl.cap))})
		return hp
	}
	// *int32 view of a struct whose first word is int32 (sync.Mutex): descend into field 0
	if b, ok := pt.Elem().Underlying().(*types.Basic); ok && b.Kind() == types.Int32 {
		v := s.load(p)
		q := p
		for {
			tu, isT := v.(Tuple)
			if !isT {
				break
			}
			q = q.field(0)
			v = tu[0]
		}
		return q
	}
	return p
}

func (w *Worker) indexAddr(s *State, f *Frame, x *ssa.IndexAddr) {
	base := w.get(s, f, x.X)
	idx := int(int64(w.concretize(s, asTerm(w.get(s, f, x.Index)))))
	switch b := base.(type) {
	case SliceV:
		if idx < 0 || idx >= b.len {
			throwRT(fmt.Sprintf("index out of range [%d] with length %d", idx, b.len))
		}
		f.env[x] = Ptr{b.arr.id, append(append([]int(nil), b.arr.path...), b.off+idx)}
	case Ptr:
		if b.isNil() {
			throwRT("nil array pointer")
		}
		n := len(s.load(b).(Tuple))
		if idx < 0 || idx >= n {
			throwRT(fmt.Sprintf("index out of range [%d] with length %d", idx, n))
		}
		f.env[x] = b.field(idx)
	default:
		unsupported("IndexAddr on %T", base)
	}
	f.ip++
}

func (w *Worker) slice(s *State, f *Frame, x *ssa.Slice) Value {
	base := w.get(s, f, x.X)
	geti := func(v ssa.Value, def int) int {
		if v == nil {
			return def
		}
		return int(int64(w.concretize(s, asTerm(w.get(s, f, v)))))
	}
	switch b := base.(type) {
	case SliceV:
		lo := geti(x.Low, 0)
		hi := geti(x.High, b.len)
		mx := geti(x.Max, b.cap)
		if lo < 0 || hi < lo || hi > b.cap || mx > b.cap || mx < hi {
			throwRT("slice bounds out of range")
		}
		return SliceV{arr: b.arr, off: b.off + lo, len: hi - lo, cap: mx - lo, isNil: b.isNil && hi == 0}
	case Ptr:
		n := len(s.load(b).(Tuple))
		lo := geti(x.Low, 0)
		hi := geti(x.High, n)
		if lo < 0 || hi < lo || hi > n {
			throwRT("slice bounds out of range")
		}
		return SliceV{arr: b, off: lo, len: hi - lo, cap: n - lo}
	case string:
		lo := geti(x.Low, 0)
		hi := geti(x.High, len(b))
		if lo < 0 || hi < lo || hi > len(b) {
			throwRT("slice bounds out of range")
		}
		return b[lo:hi]
	}
	unsupported("Slice on %T", base)
	return nil
}

func (w *Worker) mapObj(s *State, m MapRef) *MapObj {
	if m.id == 0 {
		return &MapObj{}
	}
	return s.cell(m.id).(*MapObj)
}

func (w *Worker) findKey(s *State, mo *MapObj, k Value) int {
	for i, kk := range mo.keys {
		eq := valueEq(kk, k)
		if eq.isTrue() {
			return i
		}
		if !eq.isFalse() {
			if w.decide(s, eq) {
				return i
			}
		}
	}
	return -1
}

func (w *Worker) mapUpdate(s *State, m MapRef, k, v Value) {
	if m.id == 0 {
		throwRT("assignment to entry in nil map")
	}
	s.checkGuardID(m.id, "write")
	mo := w.mapObj(s, m)
	i := w.findKey(s, mo, k)
	n := &MapObj{keys: append([]Value(nil), mo.keys...), vals: append([]Value(nil), mo.vals...)}
	if i >= 0 {
		n.vals[i] = v
	} else {
		n.keys = append(n.keys, k)
		n.vals = append(n.vals, v)
	}
	s.heap[m.id] = n
}

func (w *Worker) lookup(s *State, f *Frame, x *ssa.Lookup) Value {
	base := w.get(s, f, x.X)
	if str, ok := base.(string); ok {
		i := int(int64(w.concretize(s, asTerm(w.get(s, f, x.Index)))))
		if i < 0 || i >= len(str) {
			throwRT("string index out of range")
		}
		return BV(8, uint64(str[i]))
	}
	m := base.(MapRef)
	s.checkGuardID(m.id, "read")
	mo := w.mapObj(s, m)
	i := w.findKey(s, mo, w.get(s, f, x.Index))
	var v Value
	if i >= 0 {
		v = mo.vals[i]
	} else {
		v = zero(x.X.Type().Underlying().(*types.Map).Elem())
	}
	if x.CommaOk {
		return Tuple{v, Bool(i >= 0)}
	}
	return v
}

func (w *Worker) mkRange(s *State, v Value) Value {
	switch x := v.(type) {
	case MapRef:
		s.checkGuardID(x.id, "read")
		mo := w.mapObj(s, x)
		return s.alloc(&IterState{keys: mo.keys, vals: mo.vals})
	case string:
		var ks, vs []Value
		for i, r := range x {
			ks = append(ks, BV(64, uint64(i)))
			vs = append(vs, BV(32, uint64(r)))
		}
		return s.alloc(&IterState{keys: ks, vals: vs})
	}
	unsupported("range over %T", v)
	return nil
}

func (w *Worker) typeAssert(s *State, f *Frame, x *ssa.TypeAssert) Value {
	iv := w.get(s, f, x.X).(Iface)
	ok := false
	_, toIface := x.AssertedType.Underlying().(*types.Interface)
	if iv.t != nil {
		if toIface {
			if iv.t == opaqueErrType {
				ok = x.AssertedType.String() == "error" || types.NewMethodSet(x.AssertedType).Len() == 0
			} else {
				ok = types.Implements(iv.t, x.AssertedType.Underlying().(*types.Interface))
			}
		} else {
			ok = types.Identical(iv.t, x.AssertedType)
		}
	}
	var res Value
	if toIface {
		if ok {
			res = iv
		} else {
			res = Iface{}
		}
	} else if ok {
		res = iv.v
	} else {
		res = zero(x.AssertedType)
	}
	if x.CommaOk {
		return Tuple{res, Bool(ok)}
	}
	if !ok {
		throwRT(fmt.Sprintf("interface conversion failed: %v is not %v", iv.t, x.AssertedType))
	}
	return res
}

// ---------------- calls ----------------

func (w *Worker) callArgs(s *State, f *Frame, c *ssa.CallCommon) []Value {
	args := make([]Value, 0, len(c.Args)+1)
	for _, a := range c.Args {
		args = append(args, w.get(s, f, a))
	}
	return args
}

func (w *Worker) callee(s *State, f *Frame, c *ssa.CallCommon, args *[]Value) Value {
	if c.IsInvoke() {
		recv := w.get(s, f, c.Value).(Iface)
		if recv.t == nil {
			throwRT(fmt.Sprintf("invalid memory address or nil pointer dereference (nil interface method call %s)", c.Method.Name()))
		}
		if op, ok := recv.v.(Opaque); ok {
			return Opaque{"method " + c.Method.Name() + " of " + op.what}
		}
		sel := w.eng.prog.MethodSets.MethodSet(recv.t).Lookup(c.Method.Pkg(), c.Method.Name())
		if sel == nil {
			unsupported("no method %s on %v", c.Method.Name(), recv.t)
		}
		fn := w.eng.prog.MethodValue(sel)
		*args = append([]Value{recv.v}, *args...)
		return &Closure{fn: fn}
	}
	return w.get(s, f, c.Value)
}

func resultZeroS(s *State, sig *types.Signature) Value {
	switch sig.Results().Len() {
	case 0:
		return nil
	case 1:
		return havoc(s, sig.Results().At(0).Type())
	}
	tu := make(Tuple, sig.Results().Len())
	for i := range tu {
		tu[i] = havoc(s, sig.Results().At(i).Type())
	}
	return tu
}

func havoc(s *State, t types.Type) Value {
	switch u := t.Underlying().(type) {
	case *types.Interface:
		return Iface{}
	case *types.Pointer:
		if _, isStruct := u.Elem().Underlying().(*types.Struct); isStruct && s != nil {
			return s.alloc(zero(u.Elem()))
		}
		return Ptr{}
	}
	return zero(t)
}

func (w *Worker) setResult(f *Frame, dst ssa.Value, v Value) {
	if dst != nil {
		f.env[dst] = v
	}
}

func fnPkgPath(fn *ssa.Function) string {
	if fn.Pkg != nil {
		return fn.Pkg.Pkg.Path()
	}
	if o := fn.Origin(); o != nil && o.Pkg != nil {
		return o.Pkg.Pkg.Path()
	}
	if fn.Parent() != nil {
		return fnPkgPath(fn.Parent())
	}
	// wrappers and bound-method thunks: take the package of the receiver's method
	if fn.Object() != nil && fn.Object().Pkg() != nil {
		return fn.Object().Pkg().Path()
	}
	return ""
}

// executed (not stubbed) packages outside the module
var execStd = map[string]bool{"container/list": true, "": true, "sort": false}

// execFuncs: single functions of otherwise unexecuted packages that are plain Go and run as real code
var execFuncs = map[string]bool{"sort.Search": true, "sort.SearchInts": true}

func (w *Worker) invoke(s *State, f *Frame, fnv Value, args []Value, dst ssa.Value, kind string) {
	advance := func() {
		if f.ip < len(f.block.Instrs) {
			if _, isRD := f.block.Instrs[f.ip].(*ssa.RunDefers); !isRD {
				f.ip++
			}
		}
	}
	switch fn := fnv.(type) {
	case *ssa.Builtin:
		w.setResult(f, dst, w.builtin(s, f, fn, args, dst))
		advance()
		return
	case Opaque:
		s.job.stub("opaque:" + fn.what)
		if dst != nil {
			w.setResult(f, dst, resultZeroS(s, dst.(*ssa.Call).Call.Signature()))
		}
		advance()
		return
	case *Closure:
		if fn == nil {
			throwRT("invalid memory address or nil pointer dereference (call of nil func)")
		}
		name := fn.fn.String()
		if rc, ok := s.ghost["redirect/"+name].(*Closure); ok && rc != nil {
			// harness-registered model of an environment function (same signature)
			s.job.stub("redirected:" + name)
			fn = rc
			name = rc.fn.String()
		} else if m, ok := redirects[name]; ok && w.eng.rtPkg != nil {
			mf := w.eng.rtPkg.Func(m)
			if mf == nil {
				unsupported("model %s missing", m)
			}
			fn = &Closure{fn: mf}
			name = mf.String()
		}
		if w.intrinsic(s, f, name, fn.fn, args, dst) {
			return
		}
		pkgPath := fnPkgPath(fn.fn)
		inMod := strings.HasPrefix(pkgPath, modPrefix) || execStd[pkgPath] || s.job.execPkgs[pkgPath] || execFuncs[name]
		if fn.fn.Name() == "init" && !strings.HasPrefix(pkgPath, modPrefix) {
			advance()
			return
		}
		if !inMod || len(fn.fn.Blocks) == 0 {
			// a framework call the harness declared to be "the wrapped handler is invoked here"
			if hk, ok := s.ghost["hook/"+name].(*Closure); ok && hk != nil {
				s.job.stub("hooked:" + name)
				w.setResult(f, dst, resultZeroS(s, fn.fn.Signature))
				advance()
				nf := newFrame(hk.fn, nil, nil)
				for i, fv := range hk.fn.FreeVars {
					nf.env[fv] = hk.env[i]
				}
				s.frames = append(s.frames, nf)
				return
			}
			if ghostInt(s, "flag/strict:"+pkgPath) != 0 {
				// the harness models this package's functions one by one: an unmodelled one cannot be decided, never guessed
				unsupported("%s is not modelled (package declared strict by the harness)", name)
			}
			s.job.stub("havoc:" + name)
			w.setResult(f, dst, resultZeroS(s, fn.fn.Signature))
			advance()
			return
		}
		s.job.encoded(name)
		nf := newFrame(fn.fn, args, dst)
		nf.deferCall = kind == "defer"
		for i, fv := range fn.fn.FreeVars {
			nf.env[fv] = fn.env[i]
		}
		advance()
		s.frames = append(s.frames, nf)
		if len(s.frames) > 400 {
			unsupported("call depth > 400")
		}
		return
	}
	unsupported("call of %T", fnv)
}

func newFrame(fn *ssa.Function, args []Value, call ssa.Value) *Frame {
	if len(fn.Blocks) == 0 {
		unsupported("no body: %s", fn.String())
	}
	f := &Frame{fn: fn, block: fn.Blocks[0], env: make(map[ssa.Value]Value, 16), call: call}
	if len(args) < len(fn.Params) {
		unsupported("too few arguments for %s", fn.String())
	}
	for i, p := range fn.Params {
		f.env[p] = args[i]
	}
	return f
}

func (w *Worker) builtin(s *State, f *Frame, b *ssa.Builtin, args []Value, dst ssa.Value) Value {
	switch b.Name() {
	case "len":
		switch x := args[0].(type) {
		case SliceV:
			return BV(64, uint64(x.len))
		case string:
			return BV(64, uint64(len(x)))
		case MapRef:
			s.checkGuardID(x.id, "read")
			return BV(64, uint64(len(w.mapObj(s, x).keys)))
		case ChanRef:
			if x.id == 0 {
				return BV(64, 0)
			}
			return BV(64, uint64(len(s.cell(x.id).(*ChanObj).buf)))
		case Tuple:
			return BV(64, uint64(len(x)))
		case Ptr:
			return BV(64, uint64(len(s.load(x).(Tuple))))
		}
	case "cap":
		switch x := args[0].(type) {
		case SliceV:
			return BV(64, uint64(x.cap))
		case ChanRef:
			if x.id == 0 {
				return BV(64, 0)
			}
			return BV(64, uint64(s.cell(x.id).(*ChanObj).cap))
		}
	case "append":
		a := args[0].(SliceV)
		var src []Value
		switch bs := args[1].(type) {
		case SliceV:
			src = s.sliceElems(bs)
		case string:
			for i := 0; i < len(bs); i++ {
				src = append(src, BV(8, uint64(bs[i])))
			}
		}
		if len(src) == 0 {
			return a
		}
		if a.len+len(src) <= a.cap {
			s.checkGuardID(a.arr.id, "write")
			arr := getPath(s.cell(a.arr.id), a.arr.path).(Tuple)
			n := make(Tuple, len(arr))
			copy(n, arr)
			copy(n[a.off+a.len:], src)
			s.heap[a.arr.id] = setPath(s.cell(a.arr.id), a.arr.path, n)
			return SliceV{arr: a.arr, off: a.off, len: a.len + len(src), cap: a.cap}
		}
		nc := a.cap * 2
		if nc < a.len+len(src) {
			nc = a.len + len(src)
		}
		n := make(Tuple, nc)
		var el types.Type
		if dst != nil {
			el = dst.Type().Underlying().(*types.Slice).Elem()
		} else {
			unsupported("append without destination type")
		}
		z := zero(el)
		for i := range n {
			n[i] = z
		}
		if a.len > 0 {
			copy(n, s.sliceElems(a))
		}
		copy(n[a.len:], src)
		return SliceV{arr: s.alloc(n), len: a.len + len(src), cap: nc}
	case "copy":
		d := args[0].(SliceV)
		var src []Value
		switch bs := args[1].(type) {
		case SliceV:
			src = append([]Value(nil), s.sliceElems(bs)...)
		case string:
			for i := 0; i < len(bs); i++ {
				src = append(src, BV(8, uint64(bs[i])))
			}
		}
		n := d.len
		if len(src) < n {
			n = len(src)
		}
		if n > 0 {
			s.checkGuardID(d.arr.id, "write")
			arr := getPath(s.cell(d.arr.id), d.arr.path).(Tuple)
			na := make(Tuple, len(arr))
			copy(na, arr)
			copy(na[d.off:d.off+n], src[:n])
			s.heap[d.arr.id] = setPath(s.cell(d.arr.id), d.arr.path, na)
		}
		return BV(64, uint64(n))
	case "delete":
		m := args[0].(MapRef)
		if m.id == 0 {
			return nil
		}
		s.checkGuardID(m.id, "write")
		mo := w.mapObj(s, m)
		i := w.findKey(s, mo, args[1])
		if i >= 0 {
			n := &MapObj{}
			for j := range mo.keys {
				if j != i {
					n.keys = append(n.keys, mo.keys[j])
					n.vals = append(n.vals, mo.vals[j])
				}
			}
			s.heap[m.id] = n
		}
		return nil
	case "ssa:wrapnilchk":
		if p, ok := args[0].(Ptr); ok && p.isNil() {
			throwRT("value method called using nil pointer")
		}
		return args[0]
	case "recover":
		fr := s.frames[len(s.frames)-1]
		if s.panicking && fr.deferCall && len(s.frames) >= 2 && s.frames[len(s.frames)-2].unwinding {
			s.panicking = false
			v := s.panicV
			if iv, ok := v.(Iface); ok {
				return iv
			}
			return Iface{t: opaqueErrType, v: v}
		}
		return Iface{}
	case "close":
		if ch, ok := args[0].(ChanRef); ok && ch.id != 0 {
			co := s.cell(ch.id).(*ChanObj)
			s.heap[ch.id] = &ChanObj{buf: co.buf, cap: co.cap, closed: true}
		}
		return nil
	case "print", "println":
		return nil
	case "min", "max":
		r := args[0]
		for _, a := range args[1:] {
			x, y := asTerm(r), asTerm(a)
			_, signed, _ := bvInfo(dst.Type())
			lt := "bvult"
			if signed {
				lt = "bvslt"
			}
			c := Cmp(lt, y, x)
			if b.Name() == "max" {
				c = Cmp(lt, x, y)
			}
			r = Ite(c, y, x)
		}
		return r
	}
	unsupported("builtin %s on %T", b.Name(), args[0])
	return nil
}

var redirects = map[string]string{
	"(*sync.Once).Do":         "ModelOnceDo",
	"(*sync.Pool).Get":        "ModelPoolGet",
	"(*sync.Pool).Put":        "ModelPoolPut",
	"sort.SliceStable":        "ModelSliceStable",
	"sort.Slice":              "ModelSliceStable",
	"(*sync.Map).Load":        "ModelSyncMapLoad",
	"(*sync.Map).Store":       "ModelSyncMapStore",
	"(*sync.Map).LoadOrStore": "ModelSyncMapLoadOrStore",
	"(*sync.Map).Delete":      "ModelSyncMapDelete",
	"(*sync.Map).Range":       "ModelSyncMapRange",
}

// unwind continues panic propagation (or finishes a recovered frame).
func (w *Worker) unwind(s *State) {
	for {
		if len(s.frames) == 0 {
			bail("UNCAUGHT PANIC %v", s.panicV)
		}
		f := s.frames[len(s.frames)-1]
		if len(f.defers) > 0 {
			d := f.defers[len(f.defers)-1]
			f.defers = f.defers[:len(f.defers)-1]
			f.unwinding = true
			n := len(s.frames)
			saveIP := f.ip
			w.invoke(s, f, d.fn, d.args, nil, "defer")
			f.ip = saveIP
			if len(s.frames) > n {
				return
			}
			continue
		}
		f.unwinding = false
		if s.panicking {
			s.frames = s.frames[:len(s.frames)-1]
			continue
		}
		if f.fn.Recover != nil {
			f.prev, f.block, f.ip = f.block, f.fn.Recover, 0
			return
		}
		s.frames = s.frames[:len(s.frames)-1]
		if len(s.frames) > 0 && f.call != nil {
			s.frames[len(s.frames)-1].env[f.call] = zeroResults(f.fn.Signature)
		}
		if f.deferCall && len(s.frames) > 0 && s.frames[len(s.frames)-1].unwinding {
			continue
		}
		return
	}
}

func zeroResults(sig *types.Signature) Value {
	switch sig.Results().Len() {
	case 0:
		return nil
	case 1:
		return zero(sig.Results().At(0).Type())
	}
	tu := make(Tuple, sig.Results().Len())
	for i := range tu {
		tu[i] = zero(sig.Results().At(i).Type())
	}
	return tu
}
