package main

func cmdCheck(args []string) int  { return 2 }
func cmdReplay(args []string) int { return 2 }
func cmdList()                    {}
