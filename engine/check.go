package main

// `symgo check <ID> --tier quick|thorough`: run the registered jobs of a property, replay
// counterexamples natively, validate sampled path witnesses against the real build, write the
// evidence file, print VIOLATION / KNOWN-FINDING lines (interface of the task brief).

import (
	"encoding/json"
	"flag"
	"fmt"
	"os"
	"path/filepath"
	"sort"
	"strings"
	"time"
)

type CheckSpec struct {
	Jobs        []JobSpec `json:"jobs"`
	Assumptions []string  `json:"assumptions"`
	Bounds      string    `json:"bounds"`
}

type Finding struct {
	ID       string `json:"id"`
	Property string `json:"property"`
	Status   string `json:"status"` // open | fixed
	Commit   string `json:"commit,omitempty"`
	What     string `json:"what"`
	Region   string `json:"region,omitempty"`
}

func loadChecks() map[string]CheckSpec {
	out := map[string]CheckSpec{}
	files, _ := filepath.Glob(filepath.Join(verifRoot, "checks", "*.json"))
	for _, f := range files {
		b, err := os.ReadFile(f)
		if err != nil {
			continue
		}
		var cs CheckSpec
		if err := json.Unmarshal(b, &cs); err != nil {
			fmt.Fprintln(os.Stderr, "bad check file", f, err)
			os.Exit(2)
		}
		out[strings.TrimSuffix(filepath.Base(f), ".json")] = cs
	}
	return out
}

func loadFindings() []Finding {
	var fs []Finding
	b, err := os.ReadFile(filepath.Join(verifRoot, "known_findings.json"))
	if err != nil {
		return nil
	}
	if err := json.Unmarshal(b, &fs); err != nil {
		fmt.Fprintln(os.Stderr, "bad known_findings.json:", err)
		os.Exit(2)
	}
	return fs
}

func cmdList() {
	cs := loadChecks()
	var ids []string
	for id := range cs {
		ids = append(ids, id)
	}
	sort.Strings(ids)
	for _, id := range ids {
		fmt.Printf("%s: %d jobs; %s\n", id, len(cs[id].Jobs), cs[id].Bounds)
		for _, j := range cs[id].Jobs {
			fmt.Printf("   %-40s %s %s %v tiers=%v\n", j.Name, j.Pkg, j.Fn, j.Params, j.Tiers)
		}
	}
}

func inTier(j JobSpec, tier string) bool {
	if len(j.Tiers) == 0 {
		return true
	}
	for _, t := range j.Tiers {
		if t == tier {
			return true
		}
	}
	return false
}

func cmdCheck(args []string) int {
	if len(args) < 1 {
		usage()
	}
	id := args[0]
	fs := flag.NewFlagSet("check", flag.ExitOnError)
	tier := fs.String("tier", envOr("VERIF_TIER", "quick"), "quick|thorough")
	workers := fs.Int("workers", 16, "workers")
	noReplay := fs.Bool("no-replay", false, "skip native replays (development only)")
	only := fs.String("only", "", "run only jobs whose name contains this (development only; no evidence written)")
	fs.Parse(args[1:])
	t0 := time.Now()
	cs, ok := loadChecks()[id]
	if !ok {
		fmt.Println("ENGINE-ERROR: no check registered for", id)
		return 2
	}
	findings := loadFindings()
	knownOpen := map[string]bool{}
	var openList []string
	for _, f := range findings {
		if f.Status == "open" {
			knownOpen[f.ID] = true
			openList = append(openList, f.ID)
		}
	}
	byDir := map[string][]JobSpec{}
	var dirs []string
	for _, j := range cs.Jobs {
		if !inTier(j, *tier) || (*only != "" && !strings.Contains(j.Name, *only)) {
			continue
		}
		if j.Params == nil {
			j.Params = map[string]int64{}
		}
		if _, seen := byDir[j.Dir]; !seen {
			dirs = append(dirs, j.Dir)
		}
		byDir[j.Dir] = append(byDir[j.Dir], j)
	}
	if len(dirs) == 0 {
		fmt.Println("ENGINE-ERROR: no jobs for tier", *tier)
		return 2
	}
	if *only == "" {
		os.RemoveAll(filepath.Join(verifRoot, "replays", id))
	}
	// native replay binaries are built while the exploration runs
	rp := newReplayer(openList)
	if !*noReplay {
		for _, d := range dirs {
			for _, j := range byDir[d] {
				if !j.EngineOnly {
					rp.want(j)
				}
			}
		}
		rp.startBuilds()
	}
	defer rp.cleanup()

	var jobs []*Job
	agg := &SolverStats{ByBackend: map[string]int64{}}
	engineErrors := []string{}
	for _, d := range dirs {
		js, eng, err := runGroup(d, byDir[d], knownOpen, *workers)
		if err != nil {
			fmt.Println("ENGINE-ERROR:", err)
			return 2
		}
		jobs = append(jobs, js...)
		st := eng.sstats
		agg.Queries += st.Queries
		agg.Sat += st.Sat
		agg.Unsat += st.Unsat
		agg.Unknown += st.Unknown
		agg.CacheHits += st.CacheHits
		agg.ModelHits += st.ModelHits
		agg.Nanos += st.Nanos
		for k, v := range st.ByBackend {
			agg.ByBackend[k] += v
		}
	}
	ev := newEvidence(id, *tier, cs)
	violations := 0
	unconfirmed := 0
	var lines []string
	knownSeen := map[string]*Violation{}
	knownJob := map[string]JobSpec{}
	for _, j := range jobs {
		if verbose {
			printJobBrief(j)
		}
		for _, e := range j.engineErrs {
			engineErrors = append(engineErrors, j.Spec.Name+": "+e)
		}
		if j.Inconclusive > 0 {
			engineErrors = append(engineErrors, fmt.Sprintf("%s: %d obligations undischarged (solver unknown)", j.Spec.Name, j.Inconclusive))
		}
		if j.Paths == 0 {
			engineErrors = append(engineErrors, j.Spec.Name+": no path completed (vacuous)")
		}
		for _, lbl := range j.Spec.Reach {
			if j.reach[lbl] == 0 {
				engineErrors = append(engineErrors, fmt.Sprintf("%s: vacuity: label %q never reached", j.Spec.Name, lbl))
			}
		}
		for fid, v := range j.known {
			if _, ok := knownSeen[fid]; !ok {
				knownSeen[fid] = v
				knownJob[fid] = j.Spec
			}
		}
		ev.addJob(j)
	}
	// replay counterexamples and validate path samples natively
	if !*noReplay {
		if err := rp.waitBuilds(); err != nil {
			engineErrors = append(engineErrors, "replay build: "+err.Error())
		}
	}
	nv := 0
	for _, j := range jobs {
		for _, v := range sortedViol(j) {
			nv++
			file := filepath.Join(verifRoot, "replays", id, fmt.Sprintf("%s-%d.json", sanitize(j.Spec.Name), nv))
			rp.writeReplay(file, id, j.Spec, v)
			v.File = file
			status := "not-replayed"
			if !*noReplay {
				status = rp.confirm(j.Spec, v, file)
			}
			v.Replayed = status
			switch status {
			case "confirmed", "not-replayable", "not-replayed":
				violations++
				lines = append(lines, fmt.Sprintf("VIOLATION property=%s replay=%s", id, file))
				fmt.Printf("  counterexample (%s): job=%s assertion=%q paths=%d\n    inputs: %s\n", status, j.Spec.Name, v.Msg, v.Count, fmtInputs(v.Inputs))
			default:
				unconfirmed++
				fmt.Printf("UNCONFIRMED model (engine discrepancy, not reported as a violation): job=%s assertion=%q replay=%s\n    inputs: %s\n    native: %s\n", j.Spec.Name, v.Msg, file, fmtInputs(v.Inputs), status)
			}
			ev.addViolation(v)
		}
	}
	validated, disagreements := 0, []string{}
	if !*noReplay {
		for _, j := range jobs {
			for i, ps := range j.pathSamples {
				if (ps.Inputs == nil && len(ps.Reach) == 0) || j.Spec.EngineOnly {
					continue
				}
				ok, why := rp.validate(j.Spec, ps, i)
				if ok {
					validated++
				} else if why != "" {
					disagreements = append(disagreements, j.Spec.Name+": "+why)
				}
			}
		}
	}
	for _, d := range disagreements {
		engineErrors = append(engineErrors, "self-validation disagreement: "+d)
	}
	for _, f := range findings {
		if f.Property != id || f.Status != "open" {
			continue
		}
		if v, ok := knownSeen[f.ID]; ok {
			status := "not replayed"
			if !*noReplay {
				// replay the witness with the finding NOT excused: the plain assertion must fail natively
				file := filepath.Join(verifRoot, "replays", id, "known-"+f.ID+".json")
				var others []string
				for _, o := range openList {
					if o != f.ID {
						others = append(others, o)
					}
				}
				rp2 := *rp
				rp2.knownOpen = others
				rp2.writeReplay(file, id, knownJob[f.ID], v)
				status = rp.confirm(knownJob[f.ID], v, file)
			}
			if status == "confirmed" || status == "not-replayable" || *noReplay {
				fmt.Printf("KNOWN-FINDING: property=%s %s %s (witness %s on the real build: %s)\n", id, f.ID, f.What, status, strings.TrimSpace(fmtInputs(v.Inputs)))
				ev.KnownReported = append(ev.KnownReported, f.ID)
			} else {
				engineErrors = append(engineErrors, fmt.Sprintf("witness of known finding %s did not reproduce natively: %s", f.ID, status))
			}
		}
	}
	ev.finish(agg, validated, violations, unconfirmed, engineErrors, time.Since(t0))
	if *only == "" {
		if err := ev.write(); err != nil {
			fmt.Println("ENGINE-ERROR: cannot write evidence:", err)
			return 2
		}
	}
	fmt.Printf("%s tier=%s jobs=%d paths=%d obligations=%d discharged=%d queries=%d solver=%.1fs validated_traces=%d violations=%d unconfirmed=%d wall=%.1fs\n",
		id, *tier, len(jobs), ev.Coverage.States, ev.Coverage.Obligations, ev.Coverage.Discharged, agg.Queries, float64(agg.Nanos)/1e9, validated, violations, unconfirmed, time.Since(t0).Seconds())
	for _, l := range lines {
		fmt.Println(l)
	}
	if violations > 0 {
		return 1
	}
	if len(engineErrors) > 0 || unconfirmed > 0 {
		for _, e := range engineErrors {
			fmt.Println("ENGINE-ERROR:", e)
		}
		return 2
	}
	return 0
}

func printJobBrief(j *Job) {
	fmt.Printf("job %s: wall=%.1fs paths=%d forks=%d pruned=%d obligations=%d discharged=%d inconclusive=%d violations=%d reach=%v notes=%v\n",
		j.Spec.Name, j.wall.Seconds(), j.Paths, j.Forks, j.Pruned, j.Obligations, j.Discharged, j.Inconclusive, len(j.viol), j.reach, j.notes)
}
