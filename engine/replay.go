package main

// Native replay: the same harness, compiled with the verifreplay tag, run with the values of a
// solver model through `go test -overlay` against /repo's working tree (DESIGN §4 "Replay").

import (
	"bytes"
	"encoding/json"
	"fmt"
	"os"
	"os/exec"
	"path/filepath"
	"sort"
	"strings"
	"sync"
	"time"
)

type replayer struct {
	tmp       string
	knownOpen []string
	pkgs      map[string]*replayPkg // key: dir|pkg
	wg        sync.WaitGroup
	mu        sync.Mutex
	errs      []string
	instrOnce sync.Once
	instr     map[string]string
	instrErr  error
}

type replayPkg struct {
	dir, pkg string
	fns      map[string]bool
	bin      string
	err      error
	sched bool // instrumented build (lock-step schedule replays)
}

func newReplayer(knownOpen []string) *replayer {
	tmp, _ := os.MkdirTemp("", "symgo-replay-")
	return &replayer{tmp: tmp, knownOpen: knownOpen, pkgs: map[string]*replayPkg{}}
}

func (r *replayer) cleanup() {
	if os.Getenv("SYMGO_KEEP") != "" {
		fmt.Println("replay files kept in", r.tmp)
		return
	}
	os.RemoveAll(r.tmp)
}

func (r *replayer) want(j JobSpec) {
	k := j.Dir + "|" + j.Pkg
	p, ok := r.pkgs[k]
	if !ok {
		p = &replayPkg{dir: j.Dir, pkg: j.Pkg, fns: map[string]bool{}}
		r.pkgs[k] = p
	}
	p.fns[j.Fn] = true
	if j.SchedReplay {
		p.sched = true
	}
}

func repoRev() string {
	out, _ := exec.Command("git", "-C", repoRoot, "rev-parse", "HEAD").Output()
	st, _ := exec.Command("git", "-C", repoRoot, "status", "--porcelain").Output()
	rev := strings.TrimSpace(string(out))
	if len(bytes.TrimSpace(st)) > 0 {
		rev += "+dirty"
	}
	return rev
}

func pkgDirOf(dir, pkg string) string {
	return filepath.Join(repoRoot, dir, strings.TrimPrefix(pkg, "./"))
}

// pkgNameOf reads the package clause of a harness file injected into the directory.
func pkgNameOf(dir, pkg string) string {
	rel, _ := filepath.Rel(repoRoot, pkgDirOf(dir, pkg))
	files, _ := filepath.Glob(filepath.Join(verifRoot, "harness", rel, "*.go"))
	for _, f := range files {
		b, _ := os.ReadFile(f)
		for _, l := range strings.Split(string(b), "\n") {
			l = strings.TrimSpace(l)
			if strings.HasPrefix(l, "package ") {
				return strings.TrimSpace(strings.TrimPrefix(l, "package "))
			}
		}
	}
	return filepath.Base(pkg)
}

func (r *replayer) startBuilds() {
	for _, p := range r.pkgs {
		r.wg.Add(1)
		go func(p *replayPkg) {
			defer r.wg.Done()
			p.err = r.build(p)
		}(p)
	}
}

func (r *replayer) waitBuilds() error {
	r.wg.Wait()
	for _, p := range r.pkgs {
		if p.err != nil {
			return p.err
		}
	}
	return nil
}

func (r *replayer) build(p *replayPkg) error {
	// overlay: all harness files + a generated test driver in the package under test
	repl := map[string]string{}
	root := filepath.Join(verifRoot, "harness")
	filepath.Walk(root, func(path string, info os.FileInfo, err error) error {
		if err != nil || info.IsDir() || !strings.HasSuffix(path, ".go") {
			return nil
		}
		rel, _ := filepath.Rel(root, path)
		repl[filepath.Join(repoRoot, rel)] = path
		return nil
	})
	var fns []string
	for f := range p.fns {
		fns = append(fns, f)
	}
	sort.Strings(fns)
	var sb strings.Builder
	fmt.Fprintf(&sb, "package %s\n\nimport (\n\t\"fmt\"\n\t\"os\"\n\t\"testing\"\n\n\trt \"%s\"\n)\n\n", pkgNameOf(p.dir, p.pkg), rtPath)
	sb.WriteString("func TestVerifReplay(t *testing.T) {\n\ths := map[string]func(){\n")
	for _, f := range fns {
		fmt.Fprintf(&sb, "\t\t%q: %s,\n", f, f)
	}
	sb.WriteString("\t}\n\th := hs[os.Getenv(\"VERIF_HARNESS\")]\n\tif h == nil {\n\t\tt.Fatal(\"unknown harness\")\n\t}\n")
	sb.WriteString("\tfails, pan, div := rt.RunReplay(h)\n\tif div != \"\" {\n\t\tfmt.Println(\"REPLAY-DIVERGED:\", div)\n\t}\n")
	sb.WriteString("\tfmt.Println(\"REPLAY-DONE failures:\", len(fails), \"panicked:\", pan != nil)\n\tif len(fails) > 0 || pan != nil {\n\t\tt.Fail()\n\t}\n}\n")
	key := sanitize(p.dir + "_" + p.pkg)
	drv := filepath.Join(r.tmp, key+"_driver_test.go")
	if err := os.WriteFile(drv, []byte(sb.String()), 0644); err != nil {
		return err
	}
	repl[filepath.Join(pkgDirOf(p.dir, p.pkg), "zz_verif_replay_test.go")] = drv
	if p.sched {
		r.instrOnce.Do(func() { r.instr, r.instrErr = instrumentRepo(r.tmp) })
		if r.instrErr != nil {
			return fmt.Errorf("instrumentation: %v", r.instrErr)
		}
		for k, v := range r.instr {
			repl[k] = v
		}
	}
	ovb, _ := json.Marshal(map[string]interface{}{"Replace": repl})
	ovf := filepath.Join(r.tmp, key+"_overlay.json")
	os.WriteFile(ovf, ovb, 0644)
	p.bin = filepath.Join(r.tmp, key+".test")
	cmd := exec.Command("go", "test", "-c", "-vet=off", "-tags", "verifreplay", "-overlay", ovf, "-o", p.bin, p.pkg)
	cmd.Dir = filepath.Join(repoRoot, p.dir)
	cmd.Env = append(os.Environ(), "GOFLAGS=-mod=mod", "GOPROXY=off", "GOSUMDB=off", "GOTOOLCHAIN=local")
	out, err := cmd.CombinedOutput()
	if err != nil {
		return fmt.Errorf("go test -c %s: %v\n%s", p.pkg, err, tail(string(out), 30))
	}
	return nil
}

func tail(s string, n int) string {
	ls := strings.Split(strings.TrimSpace(s), "\n")
	if len(ls) > n {
		ls = ls[len(ls)-n:]
	}
	return strings.Join(ls, "\n")
}

type replayDoc struct {
	Property  string           `json:"property"`
	Job       JobSpec          `json:"job"`
	Assertion string           `json:"assertion"`
	Where     string           `json:"where"`
	Inputs    []ReplayInput    `json:"inputs"`
	Params    map[string]int64 `json:"params"`
	KnownOpen []string         `json:"known_open"`
	Schedule  []int            `json:"schedule,omitempty"`
	RepoRev   string           `json:"repo_rev"`
	Solver    string           `json:"solver"`
}

func (r *replayer) writeReplay(file, id string, spec JobSpec, v *Violation) {
	os.MkdirAll(filepath.Dir(file), 0755)
	doc := replayDoc{Property: id, Job: spec, Assertion: v.Msg, Where: v.Where, Inputs: v.Inputs, Params: spec.Params,
		KnownOpen: r.knownOpen, Schedule: v.Sched, RepoRev: repoRev(), Solver: "cvc5/z3 portfolio, exact-integer encoding"}
	if doc.Inputs == nil {
		doc.Inputs = []ReplayInput{}
	}
	b, _ := json.MarshalIndent(doc, "", " ")
	os.WriteFile(file, b, 0644)
}

// runNative executes the harness natively with the given replay file; returns the output.
func (r *replayer) runNative(spec JobSpec, file string) (string, error) {
	p := r.pkgs[spec.Dir+"|"+spec.Pkg]
	if p == nil || p.bin == "" || p.err != nil {
		return "", fmt.Errorf("no replay binary for %s", spec.Pkg)
	}
	cmd := exec.Command(p.bin, "-test.run", "^TestVerifReplay$", "-test.count=1", "-test.timeout=120s")
	cmd.Dir = pkgDirOf(spec.Dir, spec.Pkg)
	cmd.Env = append(os.Environ(), "VERIF_REPLAY="+file, "VERIF_HARNESS="+spec.Fn)
	if spec.SchedReplay {
		cmd.Env = append(cmd.Env, "VERIF_SCHED=1")
	}
	var buf bytes.Buffer
	cmd.Stdout, cmd.Stderr = &buf, &buf
	done := make(chan error, 1)
	cmd.Start()
	go func() { done <- cmd.Wait() }()
	select {
	case <-done:
	case <-time.After(150 * time.Second):
		cmd.Process.Kill()
		return buf.String(), fmt.Errorf("native replay timed out")
	}
	return buf.String(), nil
}

// confirm replays a counterexample; returns "confirmed" or a description of what happened instead.
func (r *replayer) confirm(spec JobSpec, v *Violation, file string) string {
	if (len(v.Sched) > 0 || spec.EngineOnly) && !spec.SchedReplay {
		return "not-replayable" // interleaving / modelled-environment counterexample
	}
	out, err := r.runNative(spec, file)
	if err != nil && out == "" {
		return "replay failed to run: " + err.Error()
	}
	switch {
	case strings.HasPrefix(v.Msg, "panic leaves the harness"):
		if strings.Contains(out, "REPLAY-PANIC:") {
			return "confirmed"
		}
	case strings.HasPrefix(v.Msg, "FATAL"):
		if strings.Contains(out, "fatal error:") {
			return "confirmed"
		}
	case strings.HasPrefix(v.Msg, "NONTERMINATION"), strings.HasPrefix(v.Msg, "DEADLOCK"):
		if (err != nil && strings.Contains(err.Error(), "timed out")) || strings.Contains(out, "test timed out") {
			return "confirmed"
		}
	default:
		if strings.Contains(out, "REPLAY-ASSERT-FAILED: "+v.Msg+"\n") {
			return "confirmed"
		}
	}
	return "did not reproduce: " + strings.ReplaceAll(tail(out, 6), "\n", " | ")
}

// validate replays a sampled path witness and compares failed assertions and observations.
func (r *replayer) validate(spec JobSpec, ps PathSample, i int) (bool, string) {
	file := filepath.Join(r.tmp, fmt.Sprintf("%s-sample-%d.json", sanitize(spec.Name), i))
	doc := replayDoc{Job: spec, Inputs: ps.Inputs, Params: spec.Params, KnownOpen: r.knownOpen, Schedule: ps.Sched}
	if doc.Inputs == nil {
		doc.Inputs = []ReplayInput{}
	}
	b, _ := json.Marshal(doc)
	os.WriteFile(file, b, 0644)
	out, err := r.runNative(spec, file)
	if err != nil {
		return false, "native run failed: " + err.Error()
	}
	if strings.Contains(out, "REPLAY-DIVERGED:") {
		return false, "native run diverged from the path (an Assume failed or the schedule could not be followed): " + tail(out, 3) + " " + fmtInputs(ps.Inputs)
	}
	var nativeFailed []string
	var nativeObs []string
	for _, l := range strings.Split(out, "\n") {
		if strings.HasPrefix(l, "REPLAY-ASSERT-FAILED: ") {
			nativeFailed = append(nativeFailed, strings.TrimPrefix(l, "REPLAY-ASSERT-FAILED: "))
		}
		if strings.HasPrefix(l, "OBSERVE ") {
			nativeObs = append(nativeObs, strings.TrimPrefix(l, "OBSERVE "))
		}
	}
	want := append([]string{}, ps.Failed...)
	sort.Strings(want)
	sort.Strings(nativeFailed)
	if strings.Join(uniq(want), "|") != strings.Join(uniq(nativeFailed), "|") {
		return false, fmt.Sprintf("assertion outcome differs: engine %v native %v inputs %s", want, nativeFailed, fmtInputs(ps.Inputs))
	}
	if strings.Contains(out, "REPLAY-PANIC:") {
		return false, "native run panicked where the engine completed the path: " + tail(out, 3)
	}
	if len(ps.Obs) > 0 && strings.Join(ps.Obs, "|") != strings.Join(nativeObs, "|") {
		return false, fmt.Sprintf("observations differ: engine %v native %v inputs %s", ps.Obs, nativeObs, fmtInputs(ps.Inputs))
	}
	return true, ""
}

func uniq(s []string) []string {
	var out []string
	for i, x := range s {
		if i == 0 || x != s[i-1] {
			out = append(out, x)
		}
	}
	return out
}

// cmdReplay: symgo replay <file>  — exit 1 if the recorded assertion fails on the real build.
func cmdReplay(args []string) int {
	if len(args) < 1 {
		usage()
	}
	b, err := os.ReadFile(args[0])
	if err != nil {
		fmt.Println("cannot read", args[0], err)
		return 2
	}
	var doc replayDoc
	if err := json.Unmarshal(b, &doc); err != nil {
		fmt.Println("bad replay file:", err)
		return 2
	}
	r := newReplayer(doc.KnownOpen)
	defer r.cleanup()
	r.want(doc.Job)
	r.startBuilds()
	if err := r.waitBuilds(); err != nil {
		fmt.Println("ENGINE-ERROR:", err)
		return 2
	}
	abs, _ := filepath.Abs(args[0])
	v := &Violation{Msg: doc.Assertion, Inputs: doc.Inputs, Sched: doc.Schedule}
	out, _ := r.runNative(doc.Job, abs)
	fmt.Print(out)
	st := r.confirm(doc.Job, v, abs)
	if st == "confirmed" {
		fmt.Printf("REPRODUCED on the real build: %q\n", doc.Assertion)
		return 1
	}
	fmt.Println("not reproduced:", st)
	return 0
}
