package main

import "golang.org/x/tools/go/ssa"

// intrinsicFiles: the modelled index-file environment of C17 (filled in with that check).
func (w *Worker) intrinsicFiles(s *State, f *Frame, name string, fn *ssa.Function, args []Value, adv func(Value) bool) bool {
	return false
}

// intrinsicEnv: verifrt functions of the adapter environment of C19 (filled in with that check).
func (w *Worker) intrinsicEnv(s *State, f *Frame, name string, args []Value, adv func(Value) bool) bool {
	return false
}
