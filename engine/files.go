package main

// Modelled environments (DESIGN §5 C17, C19): an index-file model for the metric-log searcher and
// the havoc'd framework environment of the adapters. Jobs that use them are engine-only.

import (
	"fmt"
	"go/types"

	"golang.org/x/tools/go/ssa"
)

func errVal(what string) Iface { return Iface{t: opaqueErrType, v: Opaque{what}} }

// intrinsicFiles: listMetricFiles -> harness-given names; os.Stat/Open/Seek/Close and binary.Read
// operate on ghost index files given as sequences of 64-bit words, cut at a byte length.
func (w *Worker) intrinsicFiles(s *State, f *Frame, name string, fn *ssa.Function, args []Value, adv func(Value) bool) bool {
	if s.ghost["files"] == nil {
		return false
	}
	switch name {
	case modPrefix + "/core/log/metric.listMetricFiles":
		return adv(Tuple{s.ghost["files"], Iface{}})
	case "os.Stat":
		if _, ok := s.ghost["file/"+args[0].(string)]; ok {
			return adv(Tuple{Iface{}, Iface{}})
		}
		return adv(Tuple{Iface{}, errVal("os.ErrNotExist")})
	case "os.Open":
		if _, ok := s.ghost["file/"+args[0].(string)]; !ok {
			return adv(Tuple{Ptr{}, errVal("os.ErrNotExist")})
		}
		fp := s.alloc(Tuple{args[0].(string), BV(64, 0)})
		return adv(Tuple{fp, Iface{}})
	case "(*os.File).Seek":
		fp := args[0].(Ptr)
		whence := asTerm(args[2])
		switch whence.val {
		case 0:
			s.store(fp.field(1), args[1])
		case 1:
			s.store(fp.field(1), BinBV("bvadd", asTerm(s.load(fp.field(1))), asTerm(args[1])))
		default:
			unsupported("Seek whence %d in the file model", whence.val)
		}
		return adv(Tuple{s.load(fp.field(1)), Iface{}})
	case "(*os.File).Close":
		return adv(Iface{})
	case "encoding/binary.Read":
		fp := args[0].(Iface).v.(Ptr)
		fname := s.load(fp.field(0)).(string)
		pos := w.concretize(s, asTerm(s.load(fp.field(1))))
		words := s.ghost["file/"+fname].(Tuple)
		cut := uint64(len(words)) * 8
		if c, ok := s.ghost["cut/"+fname].(*Term); ok {
			cut = w.concretize(s, c)
		}
		eof := func(n string) Value {
			g := w.eng.gByName[n]
			if g == nil {
				unsupported("no global %s", n)
			}
			return s.load(w.globalPtr(s, g))
		}
		if pos >= cut {
			return adv(eof("io.EOF"))
		}
		if pos+8 > cut || pos%8 != 0 || int(pos/8) >= len(words) {
			s.store(fp.field(1), BV(64, cut))
			return adv(eof("io.ErrUnexpectedEOF"))
		}
		dst := args[2].(Iface).v.(Ptr)
		val := words[pos/8]
		// destination may be *uint64 or *int64: same 64-bit word
		s.store(dst, val)
		s.store(fp.field(1), BV(64, pos+8))
		return adv(Iface{})
	}
	return false
}

// intrinsicEnv: verifrt functions of the modelled environments.
func (w *Worker) intrinsicEnv(s *State, f *Frame, name string, args []Value, adv func(Value) bool) bool {
	switch name {
	case "RedirectCall":
		s.ghost["redirect/"+args[0].(string)] = args[1].(Iface).v
		return adv(nil)
	case "HookCall":
		s.ghost["hook/"+args[0].(string)] = args[1]
		return adv(nil)
	case "SetFiles":
		s.ghost["files"] = args[0]
		return adv(nil)
	case "FileSet":
		sl := args[1].(SliceV)
		s.ghost["file/"+args[0].(string)] = append(Tuple(nil), s.sliceElems(sl)...)
		s.ghost["cut/"+args[0].(string)] = asTerm(args[2])
		return adv(nil)
	}
	_ = fmt.Sprint
	_ = types.Typ
	return false
}

// intrinsicEntryEnv: the Sentinel side of the adapter environment (C19). With flag "entryEnv" set,
// api.Entry returns a fresh entry (flag 1) or a block error (flag 2) and counts the request;
// SentinelEntry.Exit and api.TraceError/TraceCallee are ghost counters ("exits", "traces", "entries").
func (w *Worker) intrinsicEntryEnv(s *State, name string, fn *ssa.Function, args []Value, adv func(Value) bool) bool {
	bump := func(k string) {
		s.ghost["flag/"+k] = BV(64, ghostInt(s, "flag/"+k)+1)
	}
	switch name {
	case modPrefix + "/api.Entry":
		bump("entries")
		if ghostInt(s, "flag/entryEnv") == 2 {
			be := s.alloc(zero(fn.Signature.Results().At(1).Type().(*types.Pointer).Elem()))
			return adv(Tuple{Ptr{}, be})
		}
		et := fn.Signature.Results().At(0).Type().(*types.Pointer).Elem()
		en := s.alloc(zero(et))
		// the entry carries a context with a pass result (adapters read FilterNodes/HalfOpenNodes from it)
		if cp := structFieldPath(et, "ctx"); len(cp) == 1 {
			ct := et.Underlying().(*types.Struct).Field(cp[0]).Type().(*types.Pointer).Elem()
			cx := s.alloc(zero(ct))
			if rp := structFieldPath(ct, "RuleCheckResult"); len(rp) == 1 {
				rtt := ct.Underlying().(*types.Struct).Field(rp[0]).Type().(*types.Pointer).Elem()
				s.store(cx.field(rp[0]), s.alloc(zero(rtt)))
			}
			s.store(en.field(cp[0]), cx)
		}
		s.ghost["env/entry"] = en
		return adv(Tuple{en, Ptr{}})
	case "(*" + modPrefix + "/core/base.SentinelEntry).Exit":
		if args[0].(Ptr).isNil() {
			throwRT("invalid memory address or nil pointer dereference (Exit called on a nil *SentinelEntry)")
		}
		bump("exits")
		if k := fmt.Sprintf("exited/%d", args[0].(Ptr).id); s.ghost[k] == nil {
			s.ghost[k] = true
			bump("exitedEntries") // distinct entries that have been exited at least once
		}
		if sl, ok := args[1].(SliceV); ok && sl.len > 0 {
			bump("traces") // Exit(WithError(err)) records the error as TraceError does
		}
		return adv(nil)
	case modPrefix + "/api.TraceError":
		if en, ok := args[0].(Ptr); ok && !en.isNil() {
			if e, ok := args[1].(Iface); ok && e.t != nil {
				bump("traces")
			}
		}
		return adv(nil)
	case modPrefix + "/api.TraceCallee":
		return adv(nil)
	case "(*" + modPrefix + "/core/base.SentinelEntry).SetError":
		bump("traces")
		return adv(nil)
	}
	return false
}
