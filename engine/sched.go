package main

// Threads: park-at-visible-operation scheduling with sleep-set partial-order reduction
// (DESIGN §2.3, Appendix A.5).

import (
	"sync/atomic"
	"fmt"
	"os"
	"go/token"
	"go/types"
	"strings"

	"golang.org/x/tools/go/ssa"
)

// pendingCall returns the statically known callee the frame is about to execute (a Call
// instruction or the next deferred call of a RunDefers) with its evaluated arguments.
func (w *Worker) pendingCall(s *State, f *Frame) (string, []Value, bool) {
	if f.ip >= len(f.block.Instrs) {
		return "", nil, false
	}
	switch c := f.block.Instrs[f.ip].(type) {
	case *ssa.Call:
		if fn, ok := c.Call.Value.(*ssa.Function); ok && !c.Call.IsInvoke() {
			args := make([]Value, len(c.Call.Args))
			for i, a := range c.Call.Args {
				args[i] = w.get(s, f, a)
			}
			return fn.String(), args, true
		}
	case *ssa.RunDefers:
		if n := len(f.defers); n > 0 {
			if cl, ok := f.defers[n-1].fn.(*Closure); ok && cl != nil {
				return cl.fn.String(), f.defers[n-1].args, true
			}
		}
	}
	return "", nil, false
}

func isJoin(w *Worker, s *State, f *Frame) bool {
	n, _, ok := w.pendingCall(s, f)
	return ok && strings.HasSuffix(n, "/zzverif/verifrt.Join")
}

// isSettle: rt.Settle() waits until every other thread is blocked or finished.
func isSettle(w *Worker, s *State, f *Frame) bool {
	n, _, ok := w.pendingCall(s, f)
	return ok && strings.HasSuffix(n, "/zzverif/verifrt.Settle")
}

func (w *Worker) othersRunnable(s *State) bool {
	for i, t := range s.threads {
		if i == s.cur || len(t.frames) == 0 {
			continue
		}
		_, vis, en := w.visibleSig(s, t.frames[len(t.frames)-1])
		if !vis || en {
			return true
		}
	}
	return false
}

// selectReady: some case of a blocking select can proceed.
func selectReady(w *Worker, s *State, f *Frame, x *ssa.Select) bool {
	for _, st := range x.States {
		ch, ok := w.get(s, f, st.Chan).(ChanRef)
		if !ok || ch.id == 0 {
			continue
		}
		co := s.cell(ch.id).(*ChanObj)
		if st.Dir == types.SendOnly {
			if len(co.buf) < co.cap || chanSendReady(w, s, ch.id) {
				return true
			}
		} else if len(co.buf) > 0 || co.closed {
			return true
		}
	}
	return false
}

// chanSendReady: an unbuffered (or full) channel accepts a send when another thread is parked at a
// receive or select on it and nothing is in flight (the value is handed over through the buffer).
func chanSendReady(w *Worker, s *State, id int) bool {
	co := s.cell(id).(*ChanObj)
	if len(co.buf) > co.cap || (co.cap > 0 && len(co.buf) >= co.cap) || len(co.buf) > 0 {
		return false
	}
	for i, t := range s.threads {
		if i == s.cur || len(t.frames) == 0 {
			continue
		}
		f := t.frames[len(t.frames)-1]
		if f.ip >= len(f.block.Instrs) {
			continue
		}
		switch x := f.block.Instrs[f.ip].(type) {
		case *ssa.Select:
			for _, st := range x.States {
				if ch, ok := w.get(s, f, st.Chan).(ChanRef); ok && ch.id == id && st.Dir != types.SendOnly {
					return true
				}
			}
		case *ssa.UnOp:
			if x.Op == token.ARROW {
				if ch, ok := w.get(s, f, x.X).(ChanRef); ok && ch.id == id {
					return true
				}
			}
		}
	}
	return false
}

func (s *State) othersDone() bool {
	for i, t := range s.threads {
		if i == s.cur {
			continue
		}
		if len(t.frames) > 0 {
			return false
		}
	}
	return true
}

// visibleSig classifies the next operation of a thread. enabled=false means the thread is blocked.
func (w *Worker) visibleSig(s *State, f *Frame) (sig OpSig, visible bool, enabled bool) {
	if f.ip < len(f.block.Instrs) {
		// blocking channel operations park the thread until they can proceed
		switch x := f.block.Instrs[f.ip].(type) {
		case *ssa.Select:
			if x.Blocking {
				return OpSig{kind: "write", cell: "chan"}, true, selectReady(w, s, f, x)
			}
		case *ssa.UnOp:
			if x.Op == token.ARROW {
				if ch, ok := w.get(s, f, x.X).(ChanRef); ok && ch.id != 0 {
					co := s.cell(ch.id).(*ChanObj)
					return OpSig{kind: "write", cell: "chan"}, true, len(co.buf) > 0 || co.closed
				}
			}
		case *ssa.Send:
			if ch, ok := w.get(s, f, x.Chan).(ChanRef); ok && ch.id != 0 {
				co := s.cell(ch.id).(*ChanObj)
				return OpSig{kind: "write", cell: "chan"}, true, len(co.buf) < co.cap || co.closed || chanSendReady(w, s, ch.id)
			}
		}
	}
	n, args, ok := w.pendingCall(s, f)
	if !ok {
		return OpSig{}, false, true
	}
	switch {
	case n == modPrefix+"/util.CurrentTimeMillis" || n == modPrefix+"/util.CurrentTimeNano":
		if m := ghostInt(s, "flag/threadclock"); m == 2 || (m == 3 && !clockFrozenFor(f)) {
			return OpSig{kind: "clock"}, true, true
		}
		return OpSig{}, false, true
	case strings.HasPrefix(n, "sync/atomic."):
		p, ok := args[0].(Ptr)
		if !ok {
			return OpSig{}, false, true
		}
		kind := "write"
		if strings.HasPrefix(n, "sync/atomic.Load") {
			kind = "load"
		}
		return OpSig{kind: kind, cell: p.key()}, true, true
	case n == "(*sync/atomic.Value).Load":
		return OpSig{kind: "load", cell: args[0].(Ptr).key()}, true, true
	case n == "(*sync/atomic.Value).Store":
		return OpSig{kind: "write", cell: args[0].(Ptr).key()}, true, true
	case n == "(*sync.Mutex).Lock":
		p := args[0].(Ptr).field(0)
		st := asTerm(s.load(p))
		return OpSig{kind: "write", cell: p.key()}, true, st.isConst() && st.val == 0
	case n == "(*sync.Mutex).Unlock", n == "(*sync.Mutex).TryLock":
		p := args[0].(Ptr).field(0)
		return OpSig{kind: "write", cell: p.key()}, true, true
	case strings.HasPrefix(n, "(*sync.RWMutex)."):
		mk := args[0].(Ptr).key()
		wn, rn := ghostInt(s, "wheld/"+mk), ghostInt(s, "rheld/"+mk)
		en := true
		switch n[len("(*sync.RWMutex)."):] {
		case "Lock":
			en = wn == 0 && rn == 0
		case "RLock":
			en = wn == 0
		}
		return OpSig{kind: "write", cell: "rw/" + mk}, true, en
	case strings.HasSuffix(n, "/zzverif/verifrt.Yield"):
		return OpSig{kind: "yield", cell: "yield"}, true, true
	}
	return OpSig{}, false, true
}

var traceSched = os.Getenv("SYMGO_TRACE_SCHED") != ""

func independent(a, b OpSig) bool {
	if a.kind == "yield" || b.kind == "yield" {
		return true // a yield changes nothing another thread can observe
	}
	if a.kind == "clock" || b.kind == "clock" {
		return a.kind != b.kind
	}
	if a.cell != b.cell {
		return true
	}
	return a.kind == "load" && b.kind == "load"
}

// schedule picks the next thread; forks one state per candidate. Returns false if the path is redundant.
// maxThreadOps bounds the shared-memory operations of one thread on one path (livelock detection).
const maxThreadOps = 3000

func (w *Worker) schedule(s *State) bool {
	s.threads[s.cur].frames = s.frames
	s.threads[s.cur].panicking, s.threads[s.cur].panicV = s.panicking, s.panicV
	type cand struct {
		t   int
		sig OpSig
	}
	var cands []cand
	blocked, yielded := 0, 0
	for t, th := range s.threads {
		if th.ops > maxThreadOps && len(th.frames) > 0 {
			// no harness thread needs this many shared-memory operations: the thread is looping without waiting for
			// anybody (a spin that yields is parked by the scheduler and never gets here)
			atomic.StoreInt64(&s.job.stopped, 1)
			bail("NONTERMINATION thread %d performed more than %d shared-memory operations without finishing (livelock)", t, maxThreadOps)
		}
		if len(th.frames) == 0 {
			continue
		}
		f := th.frames[len(th.frames)-1]
		if t == 0 && (isJoinFrames(w, s, th.frames) || isSettle(w, s, f)) {
			continue
		}
		sig, vis, en := w.visibleSigOf(s, t, f)
		if !vis { // normalisation: run local steps of this thread until it parks
			s.switchTo(t)
			s.grant = false
			return true
		}
		if !en {
			blocked++
			continue
		}
		if th.yielded {
			yielded++
			continue
		}
		cands = append(cands, cand{t, sig})
	}
	if len(cands) == 0 {
		if th0 := s.threads[0]; len(th0.frames) > 0 && isSettle(w, s, th0.frames[len(th0.frames)-1]) {
			// everybody else is blocked or done: the settling main thread goes on
			s.switchTo(0)
			s.grant = false
			return true
		}
		if yielded > 0 && blocked == 0 {
			// every runnable thread is spinning on Gosched: nobody can make the awaited progress
			bail("NONTERMINATION all threads spin on runtime.Gosched")
		}
		if blocked > 0 {
			bail("DEADLOCK all threads blocked on locks")
		}
		s.switchTo(0)
		return len(s.frames) > 0
	}
	inSleep := func(t int) bool {
		for _, se := range s.sleep {
			if se.tid == t {
				return true
			}
		}
		return false
	}
	var live []cand
	for _, c := range cands {
		if !inSleep(c.t) {
			live = append(live, c)
		}
	}
	if len(live) == 0 {
		s.job.stub("sleep-set-pruned")
		return false
	}
	base := s.sleep
	mkSleep := func(i int) []SleepEnt {
		var ns []SleepEnt
		for _, se := range base {
			if independent(se.sig, live[i].sig) {
				ns = append(ns, se)
			}
		}
		for k := 0; k < i; k++ {
			if independent(live[k].sig, live[i].sig) {
				ns = append(ns, SleepEnt{live[k].t, live[k].sig})
			}
		}
		return ns
	}
	// wake: a visible write re-enables yielded threads. spin: a thread that keeps loading the same
	// cell while nobody writes is busy-waiting; after 3 such loads it is treated like a Gosched yield.
	wake := func(st *State, c cand) {
		th := st.threads[c.t]
		th.ops++
		if c.sig.kind == "write" {
			st.writeSeq++
			for t, o := range st.threads {
				if t != c.t {
					o.yielded = false
				}
			}
			th.spinCell, th.spinCount = "", 0
			return
		}
		if c.sig.kind == "load" {
			// same cell loaded again at the same program point with no write by anyone in between
			key := c.sig.cell + "@" + progPoint(th, st, c.t)
			if th.spinCell == key && th.spinSeq == st.writeSeq {
				th.spinCount++
				if th.spinCount >= 3 {
					th.yielded = true
					th.spinCount = 0
				}
			} else {
				th.spinCell, th.spinSeq, th.spinCount = key, st.writeSeq, 1
			}
		}
	}
	for i := len(live) - 1; i >= 1; i-- {
		ns := s.clone()
		ns.switchTo(live[i].t)
		ns.grant = true
		ns.sleep = mkSleep(i)
		ns.sched = append(ns.sched, live[i].t)
		if traceSched {
			ns.schedOps = append(ns.schedOps, opName(w, ns, live[i].t))
		}
		wake(ns, live[i])
		s.job.fork()
		w.eng.push(ns)
	}
	s.sleep = mkSleep(0)
	s.switchTo(live[0].t)
	s.grant = true
	s.sched = append(s.sched, live[0].t)
	if traceSched {
		s.schedOps = append(s.schedOps, opName(w, s, live[0].t))
	}
	wake(s, live[0])
	return true
}

// visibleSigOf evaluates the signature in the context of thread t (its frames are not the
// current ones, but evaluation only reads environments and the shared heap).
func (w *Worker) visibleSigOf(s *State, t int, f *Frame) (OpSig, bool, bool) {
	return w.visibleSig(s, f)
}

func isJoinFrames(w *Worker, s *State, frames []*Frame) bool {
	if len(frames) == 0 {
		return false
	}
	return isJoin(w, s, frames[len(frames)-1])
}

// progPoint identifies the instruction a thread is about to execute.
func progPoint(th *Thread, st *State, t int) string {
	fr := th.frames
	if t == st.cur {
		fr = st.frames
	}
	if len(fr) == 0 {
		return ""
	}
	f := fr[len(fr)-1]
	return fmt.Sprintf("%p/%d/%d", f.fn, f.block.Index, f.ip)
}

func opName(w *Worker, s *State, t int) string {
	fr := s.threads[t].frames
	if t == s.cur {
		fr = s.frames
	}
	if len(fr) == 0 {
		return "?"
	}
	n, _, _ := w.pendingCall(s, fr[len(fr)-1])
	if i := strings.LastIndex(n, "."); i >= 0 {
		n = n[i+1:]
	}
	return fmt.Sprintf("%d:%s@%s", t, n, fr[len(fr)-1].fn.Name())
}
