package main

import (
	"encoding/json"
	"fmt"
	"os"
	"path/filepath"
	"sort"
	"strings"
	"time"
)

type Coverage struct {
	States        int64                  `json:"states"`
	Transitions   int64                  `json:"transitions"`
	Validated     int                    `json:"traces_validated_against_impl"`
	Samples       []interface{}          `json:"samples"`
	Obligations   int64                  `json:"obligations"`
	Discharged    int64                  `json:"discharged"`
	Exhaustive    bool                   `json:"exhaustive"`
	Explanation   string                 `json:"explanation"`
	Functions     []string               `json:"functions_encoded"`
	Stubs         map[string]int         `json:"stubs_and_intrinsics_fired"`
	Bounds        string                 `json:"bounds"`
	Jobs          []map[string]interface{} `json:"jobs"`
	Solver        map[string]interface{} `json:"solver"`
	Vacuity       map[string]int         `json:"vacuity_witnesses"`
	Pruned        int64                  `json:"paths_pruned_infeasible_or_sleepset"`
	Unconfirmed   int                    `json:"unconfirmed_models"`
	EngineErrors  []string               `json:"engine_errors"`
	Counterex     []*Violation           `json:"counterexamples"`
}

type Evidence struct {
	PropertyID    string   `json:"property_id"`
	Tier          string   `json:"tier"`
	Seed          int64    `json:"seed"`
	Level         string   `json:"level"`
	Coverage      Coverage `json:"coverage"`
	Assumptions   []string `json:"assumptions"`
	WallS         float64  `json:"wall_s"`
	Violations    int      `json:"violations"`
	KnownReported []string `json:"known_findings_reported"`
	RepoRev       string   `json:"repo_rev"`
	funcs         map[string]bool
}

func newEvidence(id, tier string, cs CheckSpec) *Evidence {
	return &Evidence{PropertyID: id, Tier: tier, Seed: seedFromEnv(), Level: "model_checking",
		Assumptions: cs.Assumptions, funcs: map[string]bool{},
		Coverage: Coverage{Bounds: cs.Bounds, Stubs: map[string]int{}, Vacuity: map[string]int{}, Samples: []interface{}{}, Counterex: []*Violation{}}}
}

func (ev *Evidence) addJob(j *Job) {
	c := &ev.Coverage
	c.States += j.Paths
	c.Transitions += j.Forks + j.Paths // forks taken plus the final step of every path
	c.Obligations += j.Obligations
	c.Discharged += j.Discharged
	c.Pruned += j.Pruned
	for f := range j.funcs {
		if strings.Contains(f, modPrefix) && !strings.Contains(f, "zzverif") && !strings.Contains(f, ".Verif") {
			ev.funcs[strings.ReplaceAll(f, modPrefix+"/", "")] = true
		}
	}
	for k, v := range j.stubs {
		c.Stubs[k] += v
	}
	for k, v := range j.reach {
		c.Vacuity[k] += v
	}
	c.Jobs = append(c.Jobs, map[string]interface{}{"name": j.Spec.Name, "harness": j.Spec.Pkg + "." + j.Spec.Fn, "params": j.Params,
		"paths": j.Paths, "forks": j.Forks, "obligations": j.Obligations, "discharged": j.Discharged, "wall_s": j.wall.Seconds(), "notes": j.notes})
	for _, s := range j.samples {
		if len(c.Samples) < 12 {
			c.Samples = append(c.Samples, s)
		}
	}
}

func (ev *Evidence) addViolation(v *Violation) {
	if len(ev.Coverage.Counterex) < 20 {
		ev.Coverage.Counterex = append(ev.Coverage.Counterex, v)
	}
}

func (ev *Evidence) finish(st *SolverStats, validated, violations, unconfirmed int, engineErrors []string, wall time.Duration) {
	c := &ev.Coverage
	for f := range ev.funcs {
		c.Functions = append(c.Functions, f)
	}
	sort.Strings(c.Functions)
	c.Validated = validated
	c.Unconfirmed = unconfirmed
	c.EngineErrors = engineErrors
	c.Solver = map[string]interface{}{"queries": st.Queries, "sat": st.Sat, "unsat": st.Unsat, "unknown": st.Unknown,
		"cache_hits": st.CacheHits, "settled_by_model_evaluation": st.ModelHits, "solver_seconds": float64(st.Nanos) / 1e9, "answered_by": st.ByBackend,
		"encoding": "exact integer encoding of wrapping machine words (primary), bit-vector/FloatingPoint fallback", "per_query_limit_s": queryTO.Seconds(), "obligation_retry_limit_s": 5 * queryTO.Seconds()}
	c.Explanation = fmt.Sprintf("bounded symbolic execution of the real functions (go/ssa of /repo's working tree): states = completed paths, transitions = forks + path ends; every obligation is the SMT query path-condition AND NOT assertion; %d/%d came back unsat.", c.Discharged, c.Obligations)
	if len(c.Samples) == 0 {
		c.Samples = append(c.Samples, "no obligation reached")
	}
	if c.States == 0 {
		c.States = 0
	}
	ev.Violations = violations
	ev.WallS = wall.Seconds()
	ev.RepoRev = repoRev()
}

func (ev *Evidence) write() error {
	p := filepath.Join(verifRoot, "evidence", ev.PropertyID+".json")
	os.MkdirAll(filepath.Dir(p), 0755)
	b, err := json.MarshalIndent(ev, "", " ")
	if err != nil {
		return err
	}
	return os.WriteFile(p, b, 0644)
}
