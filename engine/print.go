package main

// SMT-LIB2 printing. Two encodings (DESIGN §3.1):
//  - exact integer encoding: every w-bit term is an Int in [0,2^w), wrap-around explicit (primary);
//  - bit-vector (+FloatingPoint) encoding: fallback for bitwise operators, symbolic shifts, floats.

import (
	"fmt"
	"math/big"
	"sort"
	"strings"
)

func smtConst(t *Term) string {
	if t.w%4 == 0 {
		return fmt.Sprintf("#x%0*x", t.w/4, t.val)
	}
	return fmt.Sprintf("#b%0*b", t.w, t.val)
}

func fpConst(bits uint64) string {
	return fmt.Sprintf("(fp #b%b #b%011b #x%013x)", bits>>63, (bits>>52)&0x7ff, bits&((1<<52)-1))
}

type Printer struct {
	sb    strings.Builder
	done  map[int]string
	decls map[string]int
}

func sortName(w int) string {
	switch {
	case w == 0:
		return "Bool"
	case w == FP:
		return "(_ FloatingPoint 11 53)"
	}
	return fmt.Sprintf("(_ BitVec %d)", w)
}

func (p *Printer) ref(t *Term) string {
	if s, ok := p.done[t.id]; ok {
		return s
	}
	var s string
	switch t.op {
	case "const":
		s = smtConst(t)
	case "fp.const":
		s = fpConst(t.val)
	case "true", "false":
		s = t.op
	case "var":
		p.decls[t.name] = t.w
		s = t.name
	default:
		as := make([]string, len(t.args))
		for i, a := range t.args {
			as[i] = p.ref(a)
		}
		var e string
		switch t.op {
		case "zext":
			e = fmt.Sprintf("((_ zero_extend %d) %s)", t.p1, as[0])
		case "sext":
			e = fmt.Sprintf("((_ sign_extend %d) %s)", t.p1, as[0])
		case "extract":
			e = fmt.Sprintf("((_ extract %d %d) %s)", t.p1, t.p2, as[0])
		case "fp.add", "fp.sub", "fp.mul", "fp.div":
			e = fmt.Sprintf("(%s RNE %s %s)", t.op, as[0], as[1])
		case "fp.sqrt":
			e = fmt.Sprintf("(fp.sqrt RNE %s)", as[0])
		case "fp.ceil":
			e = fmt.Sprintf("(fp.roundToIntegral RTP %s)", as[0])
		case "fp.floor":
			e = fmt.Sprintf("(fp.roundToIntegral RTN %s)", as[0])
		case "fp.trunc":
			e = fmt.Sprintf("(fp.roundToIntegral RTZ %s)", as[0])
		case "fp.rne":
			e = fmt.Sprintf("(fp.roundToIntegral RNE %s)", as[0])
		case "fp.rna":
			e = fmt.Sprintf("(fp.roundToIntegral RNA %s)", as[0])
		case "fp.isInf":
			e = fmt.Sprintf("(fp.isInfinite %s)", as[0])
		case "fp.from_s":
			e = fmt.Sprintf("((_ to_fp 11 53) RNE %s)", as[0])
		case "fp.from_u":
			e = fmt.Sprintf("((_ to_fp_unsigned 11 53) RNE %s)", as[0])
		case "fp.to_s":
			e = fmt.Sprintf("((_ fp.to_sbv %d) RTZ %s)", t.w, as[0])
		case "fp.to_u":
			e = fmt.Sprintf("((_ fp.to_ubv %d) RTZ %s)", t.w, as[0])
		default:
			e = "(" + t.op + " " + strings.Join(as, " ") + ")"
		}
		name := fmt.Sprintf("d%d", t.id)
		fmt.Fprintf(&p.sb, "(define-fun %s () %s %s)\n", name, sortName(t.w), e)
		s = name
	}
	p.done[t.id] = s
	return s
}

// Script renders the bit-vector/FP encoding. The returned decls maps variable name to sort.
func Script(assertions []*Term) (string, map[string]int) {
	p := &Printer{done: map[int]string{}, decls: map[string]int{}}
	var refs []string
	for _, a := range assertions {
		refs = append(refs, p.ref(a))
	}
	var out strings.Builder
	out.WriteString("(set-logic ALL)\n")
	names := make([]string, 0, len(p.decls))
	for n := range p.decls {
		names = append(names, n)
	}
	sort.Strings(names)
	for _, n := range names {
		fmt.Fprintf(&out, "(declare-const %s %s)\n", n, sortName(p.decls[n]))
	}
	out.WriteString(p.sb.String())
	for _, r := range refs {
		fmt.Fprintf(&out, "(assert %s)\n", r)
	}
	return out.String(), p.decls
}

// ---- exact integer encoding ----

var pow2Tab [66]string
var pow2m1Tab [66]string

func init() {
	for w := 0; w <= 65; w++ {
		x := new(big.Int).Lsh(big.NewInt(1), uint(w))
		pow2Tab[w] = x.String()
		pow2m1Tab[w] = new(big.Int).Sub(x, big.NewInt(1)).String()
	}
}
func pow2(w int) string { return pow2Tab[w] }

type IntPrinter struct {
	sb    strings.Builder
	done  map[int]string
	decls map[string]int
	bad   bool
}

func (p *IntPrinter) sgT(t *Term, a string) string {
	if nonneg(t) {
		return a
	}
	if t.isConst() {
		return fmt.Sprintf("%d", sx(t.val, t.w))
	}
	return p.sg(a, t.w)
}

func (p *IntPrinter) sg(a string, w int) string {
	return fmt.Sprintf("(ite (>= %s %s) (- %s %s) %s)", a, pow2(w-1), a, pow2(w), a)
}

func (p *IntPrinter) ref(t *Term) string {
	if s, ok := p.done[t.id]; ok {
		return s
	}
	if t.w == FP || strings.HasPrefix(t.op, "fp.") {
		p.bad = true
		return "0"
	}
	var s string
	switch t.op {
	case "const":
		s = fmt.Sprintf("%d", t.val)
	case "true", "false":
		s = t.op
	case "var":
		p.decls[t.name] = t.w
		s = t.name
	default:
		as := make([]string, len(t.args))
		for i, a := range t.args {
			as[i] = p.ref(a)
		}
		if p.bad {
			return "0"
		}
		w := t.w
		var e string
		switch t.op {
		case "bvadd":
			if ua, ub := umax(t.args[0]), umax(t.args[1]); ua+ub >= ua && ua+ub <= mask(w) {
				e = fmt.Sprintf("(+ %s %s)", as[0], as[1])
			} else {
				e = fmt.Sprintf("(mod (+ %s %s) %s)", as[0], as[1], pow2(w))
			}
		case "bvsub":
			e = fmt.Sprintf("(mod (- %s %s) %s)", as[0], as[1], pow2(w))
		case "bvmul":
			if hi, lo := mul64(umax(t.args[0]), umax(t.args[1])); hi == 0 && lo <= mask(w) {
				e = fmt.Sprintf("(* %s %s)", as[0], as[1])
			} else {
				e = fmt.Sprintf("(mod (* %s %s) %s)", as[0], as[1], pow2(w))
			}
		case "bvudiv":
			if t.args[1].isConst() && t.args[1].val != 0 {
				e = fmt.Sprintf("(div %s %s)", as[0], as[1])
			} else {
				e = fmt.Sprintf("(ite (= %s 0) %s (div %s %s))", as[1], pow2m1Tab[w], as[0], as[1])
			}
		case "bvurem":
			if t.args[1].isConst() && t.args[1].val != 0 {
				e = fmt.Sprintf("(mod %s %s)", as[0], as[1])
			} else {
				e = fmt.Sprintf("(ite (= %s 0) %s (mod %s %s))", as[1], as[0], as[0], as[1])
			}
		case "bvsdiv", "bvsrem":
			a, b := p.sgT(t.args[0], as[0]), p.sgT(t.args[1], as[1])
			q := fmt.Sprintf("(ite (= (>= %s 0) (>= %s 0)) (div (abs %s) (abs %s)) (- (div (abs %s) (abs %s))))", a, b, a, b, a, b)
			if t.op == "bvsdiv" {
				// SMT-LIB bvsdiv by zero: -1 if a>=0 else 1
				e = fmt.Sprintf("(ite (= %s 0) (ite (>= %s 0) %s 1) (mod %s %s))", as[1], a, pow2m1Tab[w], q, pow2(w))
			} else {
				e = fmt.Sprintf("(ite (= %s 0) %s (mod (- %s (* %s %s)) %s))", as[1], as[0], a, q, b, pow2(w))
			}
		case "bvshl", "bvlshr":
			if !t.args[1].isConst() {
				p.bad = true
				return "0"
			}
			k := int(t.args[1].val)
			if k >= w {
				e = "0"
			} else if t.op == "bvshl" {
				e = fmt.Sprintf("(mod (* %s %s) %s)", as[0], pow2(k), pow2(w))
			} else {
				e = fmt.Sprintf("(div %s %s)", as[0], pow2(k))
			}
		case "bvand":
			// x & (2^k - 1) == x mod 2^k
			if t.args[1].isConst() && t.args[1].val&(t.args[1].val+1) == 0 {
				k := 0
				for v := t.args[1].val; v != 0; v >>= 1 {
					k++
				}
				e = fmt.Sprintf("(mod %s %s)", as[0], pow2(k))
			} else {
				p.bad = true
				return "0"
			}
		case "bvnot":
			e = fmt.Sprintf("(- %s %s)", pow2m1Tab[w], as[0])
		case "zext":
			e = as[0]
		case "sext":
			e = fmt.Sprintf("(mod %s %s)", p.sgT(t.args[0], as[0]), pow2(w))
		case "extract":
			if t.p2 != 0 {
				p.bad = true
				return "0"
			}
			e = fmt.Sprintf("(mod %s %s)", as[0], pow2(w))
		case "=":
			e = fmt.Sprintf("(= %s %s)", as[0], as[1])
		case "bvult":
			e = fmt.Sprintf("(< %s %s)", as[0], as[1])
		case "bvule":
			e = fmt.Sprintf("(<= %s %s)", as[0], as[1])
		case "bvslt":
			e = fmt.Sprintf("(< %s %s)", p.sgT(t.args[0], as[0]), p.sgT(t.args[1], as[1]))
		case "bvsle":
			e = fmt.Sprintf("(<= %s %s)", p.sgT(t.args[0], as[0]), p.sgT(t.args[1], as[1]))
		case "not", "and", "ite":
			e = "(" + t.op + " " + strings.Join(as, " ") + ")"
		default:
			p.bad = true
			return "0"
		}
		if len(e) < 24 && t.op != "ite" {
			s = e // short expressions inline
		} else {
			name := fmt.Sprintf("d%d", t.id)
			sortS := "Bool"
			if t.w > 0 {
				sortS = "Int"
			}
			fmt.Fprintf(&p.sb, "(define-fun %s () %s %s)\n", name, sortS, e)
			s = name
		}
	}
	p.done[t.id] = s
	return s
}

// ScriptInt returns "" if some operator has no exact integer encoding (caller falls back to BV).
func ScriptInt(assertions []*Term) (string, map[string]int) {
	p := &IntPrinter{done: map[int]string{}, decls: map[string]int{}}
	var refs []string
	for _, a := range assertions {
		refs = append(refs, p.ref(a))
		if p.bad {
			return "", nil
		}
	}
	var out strings.Builder
	out.WriteString("(set-logic ALL)\n")
	names := make([]string, 0, len(p.decls))
	for n := range p.decls {
		names = append(names, n)
	}
	sort.Strings(names)
	for _, n := range names {
		if p.decls[n] == 0 {
			fmt.Fprintf(&out, "(declare-const %s Bool)\n", n)
		} else {
			fmt.Fprintf(&out, "(declare-const %s Int)\n(assert (and (>= %s 0) (< %s %s)))\n", n, n, n, pow2(p.decls[n]))
		}
	}
	out.WriteString(p.sb.String())
	for _, r := range refs {
		fmt.Fprintf(&out, "(assert %s)\n", r)
	}
	return out.String(), p.decls
}
