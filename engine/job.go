package main

// Job: one harness function with concrete parameters; collects statistics, violations, samples.

import (
	"fmt"
	"math/rand"
	"os"
	"sort"
	"strings"
	"sync"
	"sync/atomic"
	"time"
)

type Violation struct {
	Msg      string            `json:"assertion"`
	Where    string            `json:"where"`
	Inputs   []ReplayInput     `json:"inputs"`
	Sched    []int             `json:"schedule,omitempty"`
	Count    int               `json:"paths"`
	Job      string            `json:"job"`
	Params   map[string]int64  `json:"params,omitempty"`
	Reach    []string          `json:"reached,omitempty"`
	Extra    map[string]string `json:"extra,omitempty"`
	Replayed string            `json:"replayed,omitempty"` // confirmed | unconfirmed | not-replayable
	File     string            `json:"-"`
}

type ReplayInput struct {
	Name string `json:"name"`
	W    int    `json:"w"`
	Val  string `json:"val"` // decimal (bits for floats)
}

type Sample struct {
	Job        string `json:"job"`
	Obligation string `json:"obligation"`
	Verdict    string `json:"verdict"`
	PathLen    int    `json:"path_conjuncts"`
	Witness    string `json:"path_witness,omitempty"`
}

type JobSpec struct {
	Name    string           `json:"name"`
	Dir     string           `json:"dir"`  // load dir relative to /repo ("" = root module)
	Pkg     string           `json:"pkg"`  // package pattern relative to the module, e.g. ./core/isolation
	Fn      string           `json:"fn"`   // harness function
	Params  map[string]int64 `json:"params"`
	Tiers   []string         `json:"tiers"` // quick, thorough
	Exec    []string         `json:"exec_pkgs,omitempty"`
	Reach   []string         `json:"must_reach,omitempty"`
	MaxStep int              `json:"max_steps,omitempty"`
	// EngineOnly: the harness depends on a modelled environment (recorded timers, thread schedules,
	// modelled files/frameworks) that the plain native replay cannot reproduce; counterexamples are
	// reported with their replay file but are not re-run natively.
	EngineOnly bool `json:"engine_only,omitempty"`
	// SchedReplay: a thread harness whose counterexamples (inputs + schedule) are replayed natively over
	// an instrumented copy of the module's sources with a lock-step scheduler (verifpt).
	SchedReplay bool `json:"sched_replay,omitempty"`
}

type Job struct {
	Spec   JobSpec
	Params map[string]int64

	Paths, Forks, Obligations, Discharged, Inconclusive, Panics, Pruned int64
	stopped                                                         int64 // set when a livelock was found: the rest of the schedule tree is not explored

	mu         sync.Mutex
	viol       map[string]*Violation
	known      map[string]*Violation
	samples    []Sample
	funcs      map[string]bool
	stubs      map[string]int
	notes      map[string]int
	reach      map[string]int
	knownOpen  map[string]bool
	execPkgs   map[string]bool
	engineErrs []string
	pathSamples []PathSample
	nSamples    int
	rng         *rand.Rand
	pending    int64
	done       chan struct{}
	t0         time.Time
	wall       time.Duration
}

func newJob(spec JobSpec, knownOpen map[string]bool) *Job {
	j := &Job{Spec: spec, Params: spec.Params, viol: map[string]*Violation{}, known: map[string]*Violation{}, funcs: map[string]bool{},
		stubs: map[string]int{}, notes: map[string]int{}, reach: map[string]int{}, knownOpen: knownOpen, execPkgs: map[string]bool{}, done: make(chan struct{})}
	j.rng = rand.New(rand.NewSource(seedFromEnv()))
	j.nSamples = 3
	for _, p := range spec.Exec {
		j.execPkgs[p] = true
	}
	return j
}

func (j *Job) fork() { atomic.AddInt64(&j.Forks, 1) }
func (j *Job) stub(n string) {
	j.mu.Lock()
	j.stubs[n]++
	j.mu.Unlock()
}
func (j *Job) note(n string) {
	j.mu.Lock()
	j.notes[n]++
	j.mu.Unlock()
}
func (j *Job) encoded(n string) {
	j.mu.Lock()
	j.funcs[n] = true
	j.mu.Unlock()
}
func (j *Job) engineErr(msg string) {
	j.mu.Lock()
	if len(j.engineErrs) < 20 {
		j.engineErrs = append(j.engineErrs, msg)
	}
	j.mu.Unlock()
}

func replayInputs(s *State, m Model) []ReplayInput {
	var out []ReplayInput
	for _, in := range s.inputs {
		out = append(out, ReplayInput{in.Name, in.W, fmt.Sprint(m[in.Name])})
	}
	return out
}

func (j *Job) mkViolation(s *State, msg, wh string, m Model) *Violation {
	v := &Violation{Msg: msg, Where: wh, Count: 1, Job: j.Spec.Name, Params: j.Params, Sched: append([]int(nil), s.sched...)}
	if m != nil {
		v.Inputs = replayInputs(s, m)
	}
	for k := range s.reach {
		v.Reach = append(v.Reach, k)
	}
	sort.Strings(v.Reach)
	return v
}

func (j *Job) violation(s *State, msg, wh string, m Model) {
	j.mu.Lock()
	defer j.mu.Unlock()
	if v, ok := j.viol[msg]; ok {
		v.Count++
		return
	}
	j.viol[msg] = j.mkViolation(s, msg, wh, m)
}

func (j *Job) knownWitness(s *State, id, msg string, m Model) {
	j.mu.Lock()
	defer j.mu.Unlock()
	if v, ok := j.known[id]; ok {
		v.Count++
		return
	}
	v := j.mkViolation(s, msg, where(s), m)
	v.Extra = map[string]string{"finding": id}
	j.known[id] = v
}

func (j *Job) sample(s *State, msg, verdict string) {
	j.mu.Lock()
	defer j.mu.Unlock()
	if len(j.samples) >= 4 {
		return
	}
	for _, sm := range j.samples {
		if sm.Obligation == msg {
			return
		}
	}
	wit := ""
	if s.model != nil {
		wit = strings.TrimSpace(fmtModel(s.inputs, s.model))
		if len(wit) > 400 {
			wit = wit[:400] + "..."
		}
	}
	j.samples = append(j.samples, Sample{Job: j.Spec.Name, Obligation: msg, Verdict: verdict, PathLen: len(s.pc), Witness: wit})
}

// PathSample: a completed path with a concrete witness of its path condition; replayed natively
// to validate the interpreter against the real build (DESIGN §4 self-validation).
type PathSample struct {
	Sched  []int         `json:"schedule,omitempty"`
	Inputs []ReplayInput `json:"inputs"`
	Failed []string      `json:"failed"`
	Obs    []string      `json:"observed"`
	Reach  []string      `json:"reached"`
}

func (j *Job) pathDone(s *State) {
	if traceSched && s.model != nil {
		fmt.Println("PATH", fmtModel(s.inputs, s.model), s.sched, s.schedOps)
	}
	n := atomic.AddInt64(&j.Paths, 1)
	j.mu.Lock()
	for k := range s.reach {
		j.reach[k]++
	}
	// reservoir sampling of path witnesses
	slot := -1
	if len(j.pathSamples) < j.nSamples {
		j.pathSamples = append(j.pathSamples, PathSample{})
		slot = len(j.pathSamples) - 1
	} else if j.nSamples > 0 {
		if r := j.rng.Int63n(n); r < int64(j.nSamples) {
			slot = int(r)
		}
	}
	j.mu.Unlock()
	if slot < 0 || s.model == nil || (len(s.threads) > 1 && !j.Spec.SchedReplay) {
		return
	}
	ps := PathSample{Inputs: replayInputs(s, s.model), Failed: append([]string{}, s.failed...), Sched: append([]int(nil), s.sched...)}
	for _, o := range s.obs {
		if t, ok := o.v.(*Term); ok {
			ps.Obs = append(ps.Obs, fmt.Sprintf("%s %d", o.name, int64(evalTerm(t, s.model))))
		}
	}
	for k := range s.reach {
		ps.Reach = append(ps.Reach, k)
	}
	sort.Strings(ps.Reach)
	j.mu.Lock()
	j.pathSamples[slot] = ps
	j.mu.Unlock()
}

func fmtF(bits uint64) string {
	return fmt.Sprintf("%v(0x%x)", float64frombits(bits), bits)
}

func seedFromEnv() int64 {
	var v int64 = 1
	fmt.Sscan(os.Getenv("VERIF_SEED"), &v)
	return v
}
