package main

// Intrinsics (verifrt API, sync/atomic, mutexes, clock, math, reflect.DeepEqual) and stubs
// (logging, error constructors, fmt). DESIGN §2.4, §2.5. Every stub that fires is recorded.

import (
	"fmt"
	"go/token"
	"go/types"
	"math"
	"strings"

	"golang.org/x/tools/go/ssa"
)

func (w *Worker) deepEq(s *State, a, b Value, depth int) *Term {
	if depth > 30 {
		unsupported("deepEq too deep")
	}
	switch x := a.(type) {
	case Ptr:
		y := b.(Ptr)
		if x.isNil() || y.isNil() {
			return Bool(x.isNil() && y.isNil())
		}
		if ptrEq(x, y) {
			return Bool(true)
		}
		return w.deepEq(s, s.load(x), s.load(y), depth+1)
	case SliceV:
		y := b.(SliceV)
		if x.isNil != y.isNil || x.len != y.len {
			return Bool(false)
		}
		r := Bool(true)
		xe, ye := s.sliceElems(x), s.sliceElems(y)
		for i := 0; i < x.len; i++ {
			r = And(r, w.deepEq(s, xe[i], ye[i], depth+1))
		}
		return r
	case MapRef:
		y := b.(MapRef)
		if (x.id == 0) != (y.id == 0) {
			return Bool(false)
		}
		mx, my := w.mapObj(s, x), w.mapObj(s, y)
		if len(mx.keys) != len(my.keys) {
			return Bool(false)
		}
		r := Bool(true)
		for i, k := range mx.keys {
			j := w.findKey(s, my, k)
			if j < 0 {
				return Bool(false)
			}
			r = And(r, w.deepEq(s, mx.vals[i], my.vals[j], depth+1))
		}
		return r
	case Tuple:
		y := b.(Tuple)
		r := Bool(true)
		for i := range x {
			r = And(r, w.deepEq(s, x[i], y[i], depth+1))
		}
		return r
	case Iface:
		y := b.(Iface)
		if x.t == nil || y.t == nil {
			return Bool(x.t == nil && y.t == nil)
		}
		if !types.Identical(x.t, y.t) {
			return Bool(false)
		}
		return w.deepEq(s, x.v, y.v, depth+1)
	}
	return valueEq(a, b)
}

func (w *Worker) fresh(s *State, name string, width int) *Term {
	s.seq++
	n := fmt.Sprintf("in%d_%s", s.seq, sanitize(name))
	s.inputs = append(s.inputs, Input{n, width})
	return Var(n, width)
}

func sanitize(n string) string {
	var sb strings.Builder
	for _, r := range n {
		if (r >= 'a' && r <= 'z') || (r >= 'A' && r <= 'Z') || (r >= '0' && r <= '9') || r == '_' {
			sb.WriteRune(r)
		} else {
			sb.WriteByte('_')
		}
	}
	return sb.String()
}

func ghostKey(v Value) string {
	switch x := v.(type) {
	case Iface:
		return ghostKey(x.v)
	case Ptr:
		return x.key()
	}
	unsupported("ghost key of %T", v)
	return ""
}

func ghostInt(s *State, k string) uint64 {
	if t, ok := s.ghost[k].(*Term); ok {
		return t.val
	}
	return 0
}

const clockBeforeSet = 1700000000000 // ms; what clock reads return before the harness sets the clock

// structFieldPath resolves "a.b.c" inside the struct type t to an index path.
func structFieldPath(t types.Type, path string) []int {
	var out []int
	for _, name := range strings.Split(path, ".") {
		if p, ok := t.Underlying().(*types.Pointer); ok {
			t = p.Elem()
		}
		st, ok := t.Underlying().(*types.Struct)
		if !ok {
			unsupported("Poke/Peek: %v is not a struct (path %s)", t, path)
		}
		found := false
		for i := 0; i < st.NumFields(); i++ {
			if st.Field(i).Name() == name {
				out = append(out, i)
				t = st.Field(i).Type()
				found = true
				break
			}
		}
		if !found {
			unsupported("Poke/Peek: no field %s in %v", name, t)
		}
	}
	return out
}

// resolveField walks "a.b.c" from the object iv refers to, following pointer fields; it returns the
// address of the last field, its value and its type.
func resolveField(s *State, iv Iface, path string) (Ptr, Value, types.Type) {
	cur := iv.v.(Ptr)
	t := iv.t
	var fp Ptr
	var val Value
	for _, name := range strings.Split(path, ".") {
		if p, ok := t.Underlying().(*types.Pointer); ok {
			t = p.Elem()
		}
		st, ok := t.Underlying().(*types.Struct)
		if !ok {
			unsupported("resolveField: %v is not a struct (path %s)", t, path)
		}
		found := false
		for i := 0; i < st.NumFields(); i++ {
			if st.Field(i).Name() == name {
				fp = cur.field(i)
				val = s.load(fp)
				t = st.Field(i).Type()
				found = true
				break
			}
		}
		if !found {
			unsupported("resolveField: no field %s in %v", name, t)
		}
		if _, isPtr := t.Underlying().(*types.Pointer); isPtr {
			if np, ok := val.(Ptr); ok {
				cur = np
			}
		} else {
			cur = fp
		}
	}
	return fp, val, t
}

// fieldTypeOf returns the type of the field "a.b.c" inside the struct type t.
func fieldTypeOf(t types.Type, path string) types.Type {
	for _, name := range strings.Split(path, ".") {
		if p, ok := t.Underlying().(*types.Pointer); ok {
			t = p.Elem()
		}
		st, ok := t.Underlying().(*types.Struct)
		if !ok {
			unsupported("fieldTypeOf: %v is not a struct", t)
		}
		found := false
		for i := 0; i < st.NumFields(); i++ {
			if st.Field(i).Name() == name {
				t = st.Field(i).Type()
				found = true
				break
			}
		}
		if !found {
			unsupported("fieldTypeOf: no field %s", name)
		}
	}
	return t
}

func (w *Worker) intrinsic(s *State, f *Frame, name string, fn *ssa.Function, args []Value, dst ssa.Value) bool {
	adv := func(v Value) bool {
		w.setResult(f, dst, v)
		if f.ip < len(f.block.Instrs) {
			if _, isRD := f.block.Instrs[f.ip].(*ssa.RunDefers); !isRD {
				f.ip++
			}
		}
		return true
	}
	j := s.job
	// verifrt may live in the root module or (for adapter modules) under the adapter's own path
	rtp := rtPath + "."
	if i := strings.Index(name, "/zzverif/verifrt."); i >= 0 {
		rtp = name[:i] + "/zzverif/verifrt."
	}
	if s.ghost["flag/entryEnv"] != nil {
		if w.intrinsicEntryEnv(s, name, fn, args, adv) {
			return true
		}
	}
	switch {
	case strings.HasPrefix(name, rtp):
		switch name[len(rtp):] {
		case "U8":
			return adv(w.fresh(s, args[0].(string), 8))
		case "U16":
			return adv(w.fresh(s, args[0].(string), 16))
		case "U32":
			return adv(w.fresh(s, args[0].(string), 32))
		case "I32":
			return adv(w.fresh(s, args[0].(string), 32))
		case "U64", "I64":
			return adv(w.fresh(s, args[0].(string), 64))
		case "U64n", "I64n": // value in [0, 2^bits)
			bits := int(asTerm(args[1]).val)
			if bits < 1 || bits > 63 {
				unsupported("U64n/I64n bits out of range")
			}
			return adv(ZExt(w.fresh(s, args[0].(string), bits), 64))
		case "U32n":
			bits := int(asTerm(args[1]).val)
			if bits < 1 || bits > 31 {
				unsupported("U32n bits out of range")
			}
			return adv(ZExt(w.fresh(s, args[0].(string), bits), 32))
		case "Bool":
			v := w.fresh(s, args[0].(string), 64)
			s.addPC(Cmp("bvult", v, BV(64, 2)))
			return adv(Cmp("=", v, BV(64, 1)))
		case "Choice":
			n := asTerm(args[0])
			v := w.fresh(s, "choice", 64)
			s.addPC(Cmp("bvult", v, n))
			if s.model != nil && evalTerm(Cmp("bvult", v, n), s.model) == 0 {
				s.model = nil
			}
			return adv(v)
		case "F64Cmp":
			fl := w.fresh(s, args[0].(string)+"_floor", 64)
			fr := w.fresh(s, args[0].(string)+"_frac", 64)
			s.addPC(Cmp("bvult", fl, BV(64, 1<<50)))
			s.addPC(Cmp("bvult", fr, BV(64, 2)))
			return adv(FCmp{fl: fl, frac: Cmp("=", fr, BV(64, 1))})
		case "F64":
			return adv(w.fresh(s, args[0].(string), FP))
		case "Param":
			v, ok := j.Params[args[0].(string)]
			if !ok {
				unsupported("harness parameter %q not set", args[0].(string))
			}
			return adv(BV(64, uint64(v)))
		case "Known":
			return adv(Bool(j.knownOpen[args[0].(string)]))
		case "Assume":
			w.assume(s, asTerm(args[0]))
			return adv(nil)
		case "Reach":
			s.reach[args[0].(string)] = true
			return adv(nil)
		case "Assert":
			w.assert(s, asTerm(args[0]), args[1].(string))
			return adv(nil)
		case "AssertExcept":
			c, msg, id, region := asTerm(args[0]), args[1].(string), args[2].(string), asTerm(args[3])
			if j.knownOpen[id] {
				if r, m := w.sat(s, And(region, Not(c))); r == "sat" {
					j.knownWitness(s, id, msg, m)
				}
				w.assert(s, Or(region, c), msg)
			} else {
				w.assert(s, c, msg)
			}
			return adv(nil)
		case "Observe":
			s.obs = append(s.obs, ObsEnt{args[0].(string), args[1]})
			return adv(nil)
		case "Spawn":
			cl := args[0].(*Closure)
			nf := newFrame(cl.fn, nil, nil)
			for k, fv := range cl.fn.FreeVars {
				nf.env[fv] = cl.env[k]
			}
			if len(s.threads) == 0 {
				s.threads = []*Thread{{}}
			}
			s.threads = append(s.threads, &Thread{frames: []*Frame{nf}})
			return adv(nil)
		case "Join", "Settle":
			return adv(nil)
		case "WakeAll": // a model finished something other threads may be waiting for (e.g. sync.Once.Do returned)
			s.writeSeq++
			for t, o := range s.threads {
				if t != s.cur {
					o.yielded = false
				}
			}
			return adv(nil)
		case "Yield": // like runtime.Gosched: the thread is not rescheduled before another thread has written something
			if len(s.threads) > 1 {
				s.threads[s.cur].yielded = true
			}
			return adv(nil)
		case "LastClock":
			var lc *Term
			if len(s.threads) > 0 {
				lc = s.threads[s.cur].lastClock
			}
			if lc == nil {
				lc = BV(64, 0)
			}
			return adv(lc)
		case "Tid":
			return adv(BV(64, uint64(s.cur)))
		case "GuardAlt":
			// GuardAlt(x, mu, alt, name): like Guard/GuardObj, but every writer also holds the plain mutex alt,
			// so a read under alt alone is race-free as well; a write must hold both.
			mp := args[1].(Iface).v.(Ptr)
			ap := args[2].(Iface).v.(Ptr)
			isRW := BV(64, 0)
			if strings.Contains(fmt.Sprint(args[1].(Iface).t), "RWMutex") {
				isRW = BV(64, 1)
			}
			id := 0
			switch x := args[0].(Iface).v.(type) {
			case Ptr:
				id = x.id
			case MapRef:
				id = x.id
			case SliceV:
				id = x.arr.id
			}
			if id != 0 {
				s.ghost[fmt.Sprintf("guard/%d", id)] = Tuple{mp.key(), args[3].(string), mp, isRW, ap}
			}
			return adv(nil)
		case "Guard", "GuardObj":
			// Guard(&variable, mutex, name): the variable's cell; GuardObj(x, mutex, name): the object x refers to
			mp := args[1].(Iface).v.(Ptr)
			isRW := BV(64, 0)
			if strings.Contains(fmt.Sprint(args[1].(Iface).t), "RWMutex") {
				isRW = BV(64, 1)
			}
			id := 0
			switch x := args[0].(Iface).v.(type) {
			case Ptr:
				id = x.id
			case MapRef:
				id = x.id
			case SliceV:
				id = x.arr.id
			}
			if id != 0 {
				s.ghost[fmt.Sprintf("guard/%d", id)] = Tuple{mp.key(), args[2].(string), mp, isRW}
			}
			return adv(nil)
		case "LockFree": // no goroutine holds the mutex (any mode)
			mp := args[0].(Iface).v.(Ptr)
			if strings.Contains(fmt.Sprint(args[0].(Iface).t), "RWMutex") {
				return adv(Bool(ghostInt(s, "wheld/"+mp.key()) == 0 && ghostInt(s, "rheld/"+mp.key()) == 0))
			}
			st := asTerm(s.load(mp.field(0)))
			return adv(Bool(st.isConst() && st.val == 0))
		case "Freeze":
			switch x := args[0].(Iface).v.(type) {
			case SliceV:
				if !x.isNil && x.cap > 0 {
					s.ghost[fmt.Sprintf("frozen/%d", x.arr.id)] = args[1].(string)
				}
			case Ptr:
				s.ghost[fmt.Sprintf("frozen/%d", x.id)] = args[1].(string)
			}
			return adv(nil)
		case "SetFlag":
			s.ghost["flag/"+args[0].(string)] = args[1]
			return adv(nil)
		case "GetFlag":
			if v, ok := s.ghost["flag/"+args[0].(string)]; ok {
				return adv(v)
			}
			return adv(BV(64, 0))
		case "SetClockMs":
			t := asTerm(args[0])
			s.ghost["clock/ms"] = t
			s.ghost["clock/ns"] = BinBV("bvmul", t, BV(64, 1000000))
			return adv(nil)
		case "SetClockNs":
			t := asTerm(args[0])
			s.ghost["clock/ns"] = t
			s.ghost["clock/ms"] = BinBV("bvudiv", t, BV(64, 1000000))
			return adv(nil)
		case "FrozenClockNs":
			if v, ok := s.ghost["clock/ns"]; ok {
				return adv(v)
			}
			return adv(BV(64, 0))
		case "LastSleepNs":
			if v, ok := s.ghost["sleep/last"]; ok {
				return adv(v)
			}
			return adv(BV(64, 0))
		case "SleepCount":
			if v, ok := s.ghost["sleep/count"]; ok {
				return adv(v)
			}
			return adv(BV(64, 0))
		case "GhostGet":
			k := ghostKey(args[0]) + "/" + args[1].(string)
			if v, ok := s.ghost[k]; ok {
				return adv(v)
			}
			return adv(BV(64, 0))
		case "GhostSet":
			s.ghost[ghostKey(args[0])+"/"+args[1].(string)] = args[2]
			return adv(nil)
		case "PoolLen":
			l, _ := s.ghost[ghostKey(args[0])+"/pool"].(Tuple)
			return adv(BV(64, uint64(len(l))))
		case "PoolPush":
			k := ghostKey(args[0]) + "/pool"
			l, _ := s.ghost[k].(Tuple)
			s.ghost[k] = append(append(Tuple(nil), l...), args[1])
			return adv(nil)
		case "PoolPop":
			k := ghostKey(args[0]) + "/pool"
			l := s.ghost[k].(Tuple)
			s.ghost[k] = append(Tuple(nil), l[:len(l)-1]...)
			return adv(l[len(l)-1])
		case "PoolTake":
			k := ghostKey(args[0]) + "/pool"
			l := s.ghost[k].(Tuple)
			i := int(w.concretize(s, asTerm(args[1])))
			nl := append(append(Tuple(nil), l[:i]...), l[i+1:]...)
			s.ghost[k] = nl
			return adv(l[i])
		case "SliceLen":
			return adv(BV(64, uint64(args[0].(Iface).v.(SliceV).len)))
		case "SliceSwap":
			sl := args[0].(Iface).v.(SliceV)
			a := int(asTerm(args[1]).val)
			b := int(asTerm(args[2]).val)
			pa := Ptr{sl.arr.id, append(append([]int(nil), sl.arr.path...), sl.off+a)}
			pb := Ptr{sl.arr.id, append(append([]int(nil), sl.arr.path...), sl.off+b)}
			va, vb := s.load(pa), s.load(pb)
			s.store(pa, vb)
			s.store(pb, va)
			return adv(nil)
		case "GuardField":
			// GuardField(obj, "a.b", muOwner, "lock", name): the object the (unexported) field obj.a.b refers to is
			// guarded by the mutex the field muOwner.lock holds (or refers to)
			ov, mv := args[0].(Iface), args[2].(Iface)
			_, target, _ := resolveField(s, ov, args[1].(string))
			mfield, mval, mt := resolveField(s, mv, args[3].(string))
			mp := mfield
			if _, isPtr := mt.Underlying().(*types.Pointer); isPtr {
				mp = mval.(Ptr)
			}
			isRW := BV(64, 0)
			if strings.Contains(mt.String(), "RWMutex") {
				isRW = BV(64, 1)
			}
			id := 0
			switch x := target.(type) {
			case Ptr:
				id = x.id
			case MapRef:
				id = x.id
			case SliceV:
				id = x.arr.id
			}
			if id != 0 {
				s.ghost[fmt.Sprintf("guard/%d", id)] = Tuple{mp.key(), args[4].(string), mp, isRW}
			}
			return adv(nil)
		case "Poke", "Peek":
			iv := args[0].(Iface)
			p := iv.v.(Ptr)
			path := structFieldPath(iv.t, args[1].(string))
			q := Ptr{p.id, append(append([]int(nil), p.path...), path...)}
			if strings.HasSuffix(name, "Peek") {
				return adv(Iface{t: types.Typ[types.Int64], v: widen(s.load(q))})
			}
			cur := s.load(q)
			nv := args[2].(Iface).v
			if ct, ok := cur.(*Term); ok {
				if nt, ok2 := nv.(*Term); ok2 && nt.w != ct.w && ct.w > 0 && nt.w > 0 {
					if nt.w > ct.w {
						nv = Trunc(nt, ct.w)
					} else {
						nv = ZExt(nt, ct.w)
					}
				}
			}
			s.store(q, nv)
			return adv(nil)
		case "SameObject":
			a, b := args[0].(Iface), args[1].(Iface)
			return adv(sameObject(a.v, b.v))
		case "IsFinite":
			switch x := args[0].(type) {
			case FInt, FCmp:
				return adv(Bool(true))
			case *Term:
				return adv(And(Not(FIsNaN(x)), Not(FIsInf(x))))
			}
		case "Fire": // run a recorded time.AfterFunc callback
			k := fmt.Sprintf("afterfunc/%d", asTerm(args[0]).val)
			cl, ok := s.ghost[k].(*Closure)
			if !ok {
				return adv(Bool(false))
			}
			delete(s.ghost, k)
			adv(Bool(true))
			nf := newFrame(cl.fn, nil, nil)
			for i, fv := range cl.fn.FreeVars {
				nf.env[fv] = cl.env[i]
			}
			s.frames = append(s.frames, nf)
			return true
		case "Timers":
			return adv(BV(64, ghostInt(s, "afterfunc/n")))
		}
		if w.intrinsicBytes(s, name[len(rtp):], args, adv) {
			return true
		}
		if w.intrinsicEnv(s, f, name[len(rtp):], args, adv) {
			return true
		}
		if sub := name[len(rtp):]; sub == "init" || strings.HasPrefix(sub, "Model") || strings.HasPrefix(sub, "Mem") || strings.HasPrefix(sub, "mem") || strings.HasPrefix(sub, "(") || strings.HasPrefix(sub, "init#") {
			return false
		}
		unsupported("unknown verifrt function %s", name)
	case strings.HasPrefix(name, "sync/atomic."):
		op := name[len("sync/atomic."):]
		switch {
		case strings.HasPrefix(op, "Load"):
			return adv(s.load(args[0].(Ptr)))
		case strings.HasPrefix(op, "Store"):
			s.store(args[0].(Ptr), args[1])
			return adv(nil)
		case strings.HasPrefix(op, "Add"):
			p := args[0].(Ptr)
			nv := BinBV("bvadd", asTerm(s.load(p)), asTerm(args[1]))
			s.store(p, nv)
			return adv(nv)
		case strings.HasPrefix(op, "Swap"):
			p := args[0].(Ptr)
			old := s.load(p)
			s.store(p, args[1])
			return adv(old)
		case strings.HasPrefix(op, "CompareAndSwap"):
			p := args[0].(Ptr)
			eq := valueEq(s.load(p), args[1])
			if w.decide(s, eq) {
				s.store(p, args[2])
				return adv(Bool(true))
			}
			return adv(Bool(false))
		}
	case strings.HasPrefix(name, "(*sync/atomic."):
		// typed atomics: (*atomic.Int64).Load etc. The value is field "v" (after the noCopy/align fields).
		recv := args[0].(Ptr)
		cellv := s.load(recv).(Tuple)
		vi := len(cellv) - 1
		for i, e := range cellv {
			if _, isT := e.(*Term); isT {
				vi = i
			}
			if _, isI := e.(Iface); isI {
				vi = i
			}
		}
		p := recv.field(vi)
		m := name[strings.LastIndex(name, ".")+1:]
		switch m {
		case "Load":
			return adv(s.load(p))
		case "Store":
			s.store(p, args[1])
			return adv(nil)
		case "Add":
			nv := BinBV("bvadd", asTerm(s.load(p)), asTerm(args[1]))
			s.store(p, nv)
			return adv(nv)
		case "Swap":
			old := s.load(p)
			s.store(p, args[1])
			return adv(old)
		case "CompareAndSwap":
			eq := valueEq(s.load(p), args[1])
			if w.decide(s, eq) {
				s.store(p, args[2])
				return adv(Bool(true))
			}
			return adv(Bool(false))
		}
	case name == "(*sync.Mutex).Lock":
		p := args[0].(Ptr).field(0)
		if st := asTerm(s.load(p)); !st.isConst() || st.val != 0 {
			unsupported("Lock of a held mutex with no other runnable thread (deadlock) at %s", where(s))
		}
		s.store(p, BV(32, 1))
		return adv(nil)
	case name == "(*sync.Mutex).TryLock":
		p := args[0].(Ptr).field(0)
		if st := asTerm(s.load(p)); st.isConst() && st.val == 0 {
			s.store(p, BV(32, 1))
			return adv(Bool(true))
		}
		return adv(Bool(false))
	case name == "(*sync.Mutex).Unlock":
		p := args[0].(Ptr).field(0)
		if st := asTerm(s.load(p)); st.isConst() && st.val == 0 {
			bail("FATAL unlock of unlocked mutex at %s", where(s))
		}
		s.store(p, BV(32, 0))
		return adv(nil)
	case name == "(*sync.RWMutex).Lock", name == "(*sync.RWMutex).RLock", name == "(*sync.RWMutex).Unlock", name == "(*sync.RWMutex).RUnlock":
		mk := args[0].(Ptr).key()
		wk, rk := "wheld/"+mk, "rheld/"+mk
		wn, rn := ghostInt(s, wk), ghostInt(s, rk)
		switch name[len("(*sync.RWMutex)."):] {
		case "Lock":
			if wn > 0 || rn > 0 {
				unsupported("RWMutex.Lock would block forever (deadlock) at %s", where(s))
			}
			wn = 1
		case "RLock":
			if wn > 0 {
				unsupported("RWMutex.RLock would block forever (deadlock) at %s", where(s))
			}
			// recursive read locking: a writer that calls Lock between the two RLocks blocks the second one
			// (and is itself blocked by the first) forever - sync.RWMutex prohibits it
			tk := fmt.Sprintf("rheldby/%s/%d", mk, s.cur)
			if ghostInt(s, tk) > 0 {
				s.job.violation(s, "DEADLOCK hazard: recursive read lock of a sync.RWMutex the goroutine already holds for reading (a writer arriving in between blocks both forever)", where(s), nil)
			}
			s.ghost[tk] = BV(64, ghostInt(s, tk)+1)
			rn++
		case "Unlock":
			if wn == 0 {
				bail("FATAL unlock of unlocked RWMutex at %s", where(s))
			}
			wn = 0
		case "RUnlock":
			if rn == 0 {
				bail("FATAL RUnlock of unlocked RWMutex at %s", where(s))
			}
			if tk := fmt.Sprintf("rheldby/%s/%d", mk, s.cur); ghostInt(s, tk) > 0 {
				s.ghost[tk] = BV(64, ghostInt(s, tk)-1)
			}
			rn--
		}
		s.ghost[wk], s.ghost[rk] = BV(64, wn), BV(64, rn)
		return adv(nil)
	case name == "(*sync.WaitGroup).Add", name == "(*sync.WaitGroup).Done", name == "(*sync.WaitGroup).Wait":
		j.stub("waitgroup-noop")
		return adv(nil)
	case strings.HasPrefix(name, modPrefix+"/logging."):
		j.stub("logging")
		if strings.HasSuffix(name, "Enabled") {
			return adv(Bool(false))
		}
		return adv(zeroResults(fn.Signature))
	case strings.HasPrefix(name, "(*"+modPrefix+"/logging."), strings.HasPrefix(name, "("+modPrefix+"/logging."):
		j.stub("logging")
		return adv(zeroResults(fn.Signature))
	case name == "github.com/pkg/errors.New", name == "github.com/pkg/errors.Errorf", name == "errors.New", name == "fmt.Errorf",
		strings.HasPrefix(name, "github.com/pkg/errors.Wrap"), strings.HasPrefix(name, "github.com/pkg/errors.With"):
		j.stub("error-constructor")
		return adv(Iface{t: opaqueErrType, v: Opaque{"error"}})
	case name == "fmt.Sprintf", name == "fmt.Sprint", name == "fmt.Sprintln":
		if name == "fmt.Sprintf" && (ghostInt(s, "flag/memfs") != 0 || ghostInt(s, "flag/fold-sprintf") != 0) {
			if v, ok := w.hostSprintf(s, args); ok {
				return adv(v)
			}
		}
		j.stub("fmt.Sprintf")
		return adv("<sprintf>")
	case name == "fmt.Println", name == "fmt.Printf", name == "fmt.Print", name == "fmt.Fprintf", name == "fmt.Fprintln":
		j.stub("fmt.Print")
		return adv(zeroResults(fn.Signature))
	case name == "reflect.DeepEqual":
		return adv(w.deepEq(s, args[0], args[1], 0))
	case name == "reflect.TypeOf":
		iv := args[0].(Iface)
		return adv(Iface{t: opaqueErrType, v: Opaque{"reflect.Type:" + fmt.Sprint(iv.t)}})
	case name == "strings.HasPrefix":
		return adv(Bool(strings.HasPrefix(args[0].(string), args[1].(string))))
	case name == "strings.HasSuffix":
		return adv(Bool(strings.HasSuffix(args[0].(string), args[1].(string))))
	case name == "strings.Contains":
		return adv(Bool(strings.Contains(args[0].(string), args[1].(string))))
	case name == "strings.TrimSpace":
		return adv(strings.TrimSpace(args[0].(string)))
	case name == "strings.ToLower":
		return adv(strings.ToLower(args[0].(string)))
	case name == "strings.ToUpper":
		return adv(strings.ToUpper(args[0].(string)))
	case name == "strings.EqualFold":
		return adv(Bool(strings.EqualFold(args[0].(string), args[1].(string))))
	case name == "strconv.Itoa":
		if t := asTerm(args[0]); t.isConst() {
			return adv(fmt.Sprint(int64(t.val)))
		}
		return adv("<itoa>")
	case name == "time.AfterFunc":
		n := ghostInt(s, "afterfunc/n")
		s.ghost[fmt.Sprintf("afterfunc/%d", n)] = args[1]
		s.ghost["afterfunc/n"] = BV(64, n+1)
		j.stub("time.AfterFunc recorded")
		return adv(s.alloc(Tuple{BV(64, n)}))
	case name == "(*time.Timer).Stop":
		return adv(Bool(true))
	case name == modPrefix+"/util.CurrentTimeNano" || name == modPrefix+"/util.CurrentTimeMillis":
		ms := name == modPrefix+"/util.CurrentTimeMillis"
		if len(s.threads) > 1 && s.ghost["flag/threadclock"] != nil && !(ghostInt(s, "flag/threadclock") == 3 && clockFrozenFor(f)) {
			v := w.fresh(s, fmt.Sprintf("clk_t%d", s.cur), 64)
			if s.clock != nil && ghostInt(s, "flag/threadclock") >= 2 {
				w.assume(s, Cmp("bvule", s.clock, v))
			}
			w.assume(s, Cmp("bvult", v, BV(64, 1<<60)))
			if lo, ok := s.ghost["flag/clocklo"].(*Term); ok {
				w.assume(s, Cmp("bvule", lo, v))
			}
			s.clock = v
			s.threads[s.cur].lastClock = v
			return adv(v)
		}
		k := "clock/ns"
		if ms {
			k = "clock/ms"
		}
		if v, ok := s.ghost[k]; ok {
			return adv(v)
		}
		j.stub("clock-read-before-harness-set-it")
		if ms {
			return adv(BV(64, clockBeforeSet))
		}
		return adv(BV(64, clockBeforeSet*1000000))
	case name == modPrefix+"/util.Sleep":
		s.ghost["sleep/last"] = args[0]
		s.ghost["sleep/count"] = BV(64, ghostInt(s, "sleep/count")+1)
		return adv(nil)
	case name == modPrefix+"/util.Now", name == "time.Now":
		j.stub("time.Now")
		return adv(zero(fn.Signature.Results().At(0).Type()))
	case name == "runtime.Gosched":
		if len(s.threads) > 1 {
			s.threads[s.cur].yielded = true
		} else {
			g := ghostInt(s, "gosched/n") + 1
			s.ghost["gosched/n"] = BV(64, g)
			if g > 64 {
				bail("NONTERMINATION spinning on runtime.Gosched with no other thread at %s", where(s))
			}
		}
		return adv(nil)
	case name == "runtime.NumCPU", name == "runtime.GOMAXPROCS":
		return adv(BV(64, 4))
	case strings.HasPrefix(name, "math.") && name != "math.init":
		if v, ok := w.mathFn(s, name[5:], args); ok {
			return adv(v)
		}
		unsupported("math function %s on these operands is not modelled", name)
	case name == "(*sync/atomic.Value).Store":
		s.store(args[0].(Ptr).field(0), args[1])
		return adv(nil)
	case name == "(*sync/atomic.Value).Load":
		return adv(s.load(args[0].(Ptr).field(0)))
	}
	if w.intrinsicHost(s, f, name, fn, args, adv) {
		return true
	}
	return w.intrinsicFiles(s, f, name, fn, args, adv)
}

func widen(v Value) Value {
	if t, ok := v.(*Term); ok && t.w > 0 && t.w < 64 {
		return SExt(t, 64)
	}
	return v
}

func sameObject(a, b Value) *Term {
	switch x := a.(type) {
	case Ptr:
		y, ok := b.(Ptr)
		return Bool(ok && ptrEq(x, y))
	case MapRef:
		y, ok := b.(MapRef)
		return Bool(ok && x.id == y.id)
	case Iface:
		y, ok := b.(Iface)
		if !ok || x.t == nil || y.t == nil {
			return Bool(false)
		}
		return sameObject(x.v, y.v)
	case SliceV:
		y, ok := b.(SliceV)
		return Bool(ok && x.arr.id == y.arr.id && x.off == y.off && !x.isNil)
	}
	return Bool(false)
}

func (w *Worker) mathFn(s *State, fn string, args []Value) (Value, bool) {
	un := map[string]string{"Ceil": "fp.ceil", "Floor": "fp.floor", "Abs": "fp.abs", "Trunc": "fp.trunc", "Sqrt": "fp.sqrt", "RoundToEven": "fp.rne", "Round": "fp.rna"}
	switch fn {
	case "Ceil", "Floor", "Abs", "Trunc", "Sqrt", "RoundToEven", "Round":
		switch x := args[0].(type) {
		case FInt:
			if fn == "Sqrt" {
				t, _ := toFP(x)
				return FUn("fp.sqrt", t), true
			}
			if fn == "Abs" {
				if nonneg(x.t) {
					return x, true
				}
				return FInt{Ite(Cmp("bvslt", x.t, BV(64, 0)), BVNeg(x.t), x.t)}, true
			}
			return x, true
		case *Term:
			r := FUn(un[fn], x)
			if r.isConst() {
				return floatConst(r.fval()), true
			}
			return r, true
		case FCmp:
			switch fn {
			case "Floor", "Trunc":
				return FInt{x.fl}, true
			case "Ceil", "Round": // value = floor + 0.5*frac: half rounds away from zero (non-negative values)
				return FInt{fcmpCeil(x)}, true
			case "Abs":
				return x, true
			}
		}
	case "IsNaN":
		switch x := args[0].(type) {
		case FInt, FCmp:
			return Bool(false), true
		case *Term:
			return FIsNaN(x), true
		}
	case "IsInf":
		switch x := args[0].(type) {
		case FInt, FCmp:
			return Bool(false), true
		case *Term:
			sign := asTerm(args[1])
			if !sign.isConst() {
				return nil, false
			}
			inf := FIsInf(x)
			switch {
			case int64(sign.val) > 0:
				return And(inf, FCmpT("fp.lt", FConstT(0), x)), true
			case int64(sign.val) < 0:
				return And(inf, FCmpT("fp.lt", x, FConstT(0))), true
			}
			return inf, true
		}
	case "Inf":
		sign := asTerm(args[0])
		if int64(sign.val) >= 0 {
			return FConstT(math.Inf(1)), true
		}
		return FConstT(math.Inf(-1)), true
	case "NaN":
		return FConstT(math.NaN()), true
	case "Max", "Min":
		fa, ok1 := concreteFloat(args[0])
		fb, ok2 := concreteFloat(args[1])
		if ok1 && ok2 {
			if fn == "Max" {
				return floatConst(math.Max(fa, fb)), true
			}
			return floatConst(math.Min(fa, fb)), true
		}
		ai, aI := args[0].(FInt)
		bi, bI := args[1].(FInt)
		if aI && bI {
			c := Cmp("bvslt", ai.t, bi.t)
			if fn == "Max" {
				return FInt{Ite(c, bi.t, ai.t)}, true
			}
			return FInt{Ite(c, ai.t, bi.t)}, true
		}
		ta, ok1 := toFP(args[0])
		tb, ok2 := toFP(args[1])
		if ok1 && ok2 {
			// NaN if either is NaN; otherwise the larger/smaller (signed zeros not distinguished)
			nan := Or(FIsNaN(ta), FIsNaN(tb))
			lt := FCmpT("fp.lt", ta, tb)
			var pick *Term
			if fn == "Max" {
				pick = mk("ite", FP, 0, "", 0, 0, lt, tb, ta)
			} else {
				pick = mk("ite", FP, 0, "", 0, 0, lt, ta, tb)
			}
			return mk("ite", FP, 0, "", 0, 0, nan, FConstT(math.NaN()), pick), true
		}
	case "Nextafter":
		fa, ok1 := concreteFloat(args[0])
		fb, ok2 := concreteFloat(args[1])
		if ok1 && ok2 {
			return floatConst(math.Nextafter(fa, fb)), true
		}
		// symbolic x towards +MaxFloat64: over-approximated by a fresh y with x < y <= x + |x|*2^-50
		// (or y tiny when x is 0); NaN and +Inf map to themselves. Sound for upper/lower-bound claims.
		if ok2 && fb == math.MaxFloat64 {
			if x, ok := toFP(args[0]); ok {
				s.job.stub("math.Nextafter(x, MaxFloat64) over-approximated by a fresh value in (x, x+|x|*2^-50]")
				y := w.fresh(s, "nextafter", FP)
				special := Or(FIsNaN(x), And(FIsInf(x), FCmpT("fp.lt", FConstT(0), x)))
				up := FBin("fp.add", x, FBin("fp.mul", FUn("fp.abs", x), FConstT(math.Ldexp(1, -50))))
				normal := And(FCmpT("fp.lt", x, y), Or(FCmpT("fp.leq", y, up), FCmpT("fp.leq", y, FConstT(1e-300))))
				w.assume(s, Or(And(special, Or(And(FIsNaN(x), FIsNaN(y)), FCmpT("fp.eq", x, y))), And(Not(special), normal)))
				return y, true
			}
		}
	case "Float64bits":
		if fa, ok := concreteFloat(args[0]); ok {
			return BV(64, math.Float64bits(fa)), true
		}
	case "Float64frombits":
		if t := asTerm(args[0]); t.isConst() {
			return floatConst(math.Float64frombits(t.val)), true
		}
	case "Pow":
		fa, ok1 := concreteFloat(args[0])
		fb, ok2 := concreteFloat(args[1])
		if ok1 && ok2 {
			return floatConst(math.Pow(fa, fb)), true
		}
	}
	_ = token.ADD
	return nil, false
}

// clockFrozenFor: in clock mode 3 the statistic structures (core/stat/base) read the frozen harness
// clock, every other reader gets an ordered symbolic value (stated reduction of C12).
func clockFrozenFor(f *Frame) bool {
	return strings.HasSuffix(fnPkgPath(f.fn), "core/stat/base")
}
