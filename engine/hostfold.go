package main

// Host-side folding of pure library functions over concrete operands (file names, patterns, small
// strings), the byte helpers of the in-memory file system, and harness-registered call redirects.

import (
	"fmt"
	"go/types"
	"path/filepath"
	"regexp"
	"strconv"
	"strings"
	"sync"
	"time"

	"golang.org/x/tools/go/ssa"
)

var hostRegexps sync.Map // pattern -> *regexp.Regexp

func (w *Worker) strSlice(s *State, xs []string) SliceV {
	arr := make(Tuple, len(xs))
	for i, x := range xs {
		arr[i] = x
	}
	return SliceV{arr: s.alloc(arr), len: len(xs), cap: len(xs)}
}

func concreteBytes(s *State, sl SliceV) ([]byte, bool) {
	bs := make([]byte, sl.len)
	for i, e := range s.sliceElems(sl) {
		t := asTerm(e)
		if !t.isConst() {
			return nil, false
		}
		bs[i] = byte(t.val)
	}
	return bs, true
}

// hostArg converts a concrete interpreter value (inside an interface) to a Go value for fmt.
func hostArg(v Value) (interface{}, bool) {
	iv, ok := v.(Iface)
	if !ok {
		return nil, false
	}
	switch x := iv.v.(type) {
	case string:
		return x, true
	case FInt:
		if x.t.isConst() {
			return float64(int64(x.t.val)), true
		}
		return nil, false
	case *Term:
		if !x.isConst() {
			return nil, false
		}
		if x.op == "fp.const" {
			return x.fval(), true
		}
		if _, signed, ok := bvInfo(iv.t); ok {
			if signed {
				return sx(x.val, x.w), true
			}
			return x.val, true
		}
		if x.w == 0 {
			return x.isTrue(), true
		}
	}
	return nil, false
}

func parseErr(what string) Iface { return errVal("strconv:" + what) }

// ByteOf returns byte k (0 = least significant) of a 64-bit term.
func ByteOf(v *Term, k int) *Term {
	if v.isConst() {
		return BV(8, (v.val>>(8*uint(k)))&0xff)
	}
	return mk("extract", 8, 0, "", 8*k+7, 8*k, v)
}

func (w *Worker) intrinsicHost(s *State, f *Frame, name string, fn *ssa.Function, args []Value, adv func(Value) bool) bool {
	str := func(i int) (string, bool) { x, ok := args[i].(string); return x, ok }
	switch name {
	case "strings.Split":
		a, ok1 := str(0)
		b, ok2 := str(1)
		if ok1 && ok2 {
			return adv(w.strSlice(s, strings.Split(a, b)))
		}
	case "strings.ReplaceAll":
		return adv(strings.ReplaceAll(args[0].(string), args[1].(string), args[2].(string)))
	case "strings.Index":
		return adv(BV(64, uint64(int64(strings.Index(args[0].(string), args[1].(string))))))
	case "strings.LastIndex":
		return adv(BV(64, uint64(int64(strings.LastIndex(args[0].(string), args[1].(string))))))
	case "strings.Repeat":
		return adv(strings.Repeat(args[0].(string), int(w.concretize(s, asTerm(args[1])))))
	case "strconv.Atoi":
		if a, ok := str(0); ok {
			v, err := strconv.Atoi(a)
			if err != nil {
				return adv(Tuple{BV(64, 0), parseErr(a)})
			}
			return adv(Tuple{BV(64, uint64(int64(v))), Iface{}})
		}
	case "strconv.ParseBool":
		if a, ok := str(0); ok {
			v, err := strconv.ParseBool(a)
			if err != nil {
				return adv(Tuple{Bool(false), parseErr(a)})
			}
			return adv(Tuple{Bool(v), Iface{}})
		}
	case "strconv.ParseFloat":
		if a, ok := str(0); ok {
			v, err := strconv.ParseFloat(a, 64)
			if err != nil {
				return adv(Tuple{floatConst(0), parseErr(a)})
			}
			return adv(Tuple{floatConst(v), Iface{}})
		}
	case "strconv.ParseUint", "strconv.ParseInt":
		a, _ := str(0)
		base, bits := int(asTerm(args[1]).val), int(asTerm(args[2]).val)
		if name == "strconv.ParseUint" {
			v, err := strconv.ParseUint(a, base, bits)
			if err != nil {
				return adv(Tuple{BV(64, v), parseErr(a)})
			}
			return adv(Tuple{BV(64, v), Iface{}})
		}
		v, err := strconv.ParseInt(a, base, bits)
		if err != nil {
			return adv(Tuple{BV(64, uint64(v)), parseErr(a)})
		}
		return adv(Tuple{BV(64, uint64(v)), Iface{}})
	case "path/filepath.Join":
		sl := args[0].(SliceV)
		var parts []string
		for _, e := range s.sliceElems(sl) {
			parts = append(parts, e.(string))
		}
		return adv(filepath.Join(parts...))
	case "path/filepath.Base":
		return adv(filepath.Base(args[0].(string)))
	case "regexp.MustCompile":
		pat := args[0].(string)
		if _, ok := hostRegexps.Load(pat); !ok {
			hostRegexps.Store(pat, regexp.MustCompile(pat))
		}
		return adv(Opaque{"regexp:" + pat})
	case "(*regexp.Regexp).MatchString":
		if o, ok := args[0].(Opaque); ok && strings.HasPrefix(o.what, "regexp:") {
			re, _ := hostRegexps.Load(o.what[len("regexp:"):])
			return adv(Bool(re.(*regexp.Regexp).MatchString(args[1].(string))))
		}
	case "(time.Time).Equal":
		// only time values built by the models (zero / identical representations) occur: structural equality
		return adv(w.deepEq(s, args[0], args[1], 0))
	case "bytes.Clone":
		sl := args[0].(SliceV)
		if sl.arr.isNil() {
			return adv(sl)
		}
		arr := make(Tuple, sl.len)
		copy(arr, s.sliceElems(sl))
		return adv(SliceV{arr: s.alloc(arr), len: sl.len, cap: sl.len})
	case "bytes.IndexByte":
		if bs, ok := concreteBytes(s, args[0].(SliceV)); ok {
			c := asTerm(args[1])
			if c.isConst() {
				k := -1
				for i, b := range bs {
					if b == byte(c.val) {
						k = i
						break
					}
				}
				return adv(BV(64, uint64(int64(k))))
			}
		}
		unsupported("bytes.IndexByte over symbolic bytes at %s", where(s))
	case modPrefix + "/util.FormatDate":
		// UTC calendar day of a millisecond time stamp (assumption: the process runs in UTC)
		ms := asTerm(args[0])
		day := w.concretize(s, BinBV("bvudiv", ms, BV(64, 86400000)))
		return adv(time.Unix(int64(day)*86400, 0).UTC().Format("2006-01-02"))
	}
	return false
}

func (w *Worker) hostSprintf(s *State, args []Value) (string, bool) {
	format, ok := args[0].(string)
	if !ok {
		return "", false
	}
	var hv []interface{}
	if sl, ok := args[1].(SliceV); ok {
		for _, e := range s.sliceElems(sl) {
			x, ok := hostArg(e)
			if !ok {
				return "", false
			}
			hv = append(hv, x)
		}
	}
	return fmt.Sprintf(format, hv...), true
}

// intrinsicBytes: verifrt.PutBE64 / BE64.
func (w *Worker) intrinsicBytes(s *State, name string, args []Value, adv func(Value) bool) bool {
	switch name {
	case "PutBE64":
		sl := args[0].(SliceV)
		if sl.len < 8 {
			throwRT("index out of range (PutBE64)")
		}
		v := asTerm(args[1])
		for i := 0; i < 8; i++ {
			p := sl.arr
			p.path = append(append([]int(nil), p.path...), sl.off+i)
			s.store(p, ByteOf(v, 7-i))
		}
		return adv(nil)
	case "BE64":
		sl := args[0].(SliceV)
		if sl.len < 8 {
			throwRT("index out of range (BE64)")
		}
		el := s.sliceElems(sl)
		allConst := true
		var val uint64
		var base *Term
		same := true
		for i := 0; i < 8; i++ {
			t := asTerm(el[i])
			if t.isConst() {
				val = val<<8 | t.val
			} else {
				allConst = false
			}
			if t.op == "extract" && t.p1 == 8*(7-i)+7 && t.p2 == 8*(7-i) && (base == nil || base == t.args[0]) {
				base = t.args[0]
			} else {
				same = false
			}
		}
		if allConst {
			return adv(BV(64, val))
		}
		if same && base != nil && base.w == 64 {
			return adv(base)
		}
		// general case: or of shifted bytes
		acc := BV(64, 0)
		for i := 0; i < 8; i++ {
			acc = BinBV("bvor", BinBV("bvshl", acc, BV(64, 8)), ZExt(asTerm(el[i]), 64))
		}
		return adv(acc)
	}
	return false
}

var _ = types.Typ
