package main

// Values, heap and execution state of the symbolic interpreter (DESIGN §2.2, Appendix A.1).

import (
	"fmt"
	"go/token"
	"go/types"
	"sort"
	"sync"
	"sync/atomic"

	"golang.org/x/tools/go/ssa"
)

const modPrefix = "github.com/alibaba/sentinel-golang"
const rtPath = modPrefix + "/zzverif/verifrt"

type Value interface{}

type Ptr struct {
	id   int
	path []int
}
type Tuple []Value // struct, array, multi-value
type SliceV struct {
	arr           Ptr
	off, len, cap int
	isNil         bool
}
type Iface struct {
	t types.Type // nil => nil interface
	v Value
}
type Closure struct {
	fn  *ssa.Function
	env []Value
}
type MapRef struct{ id int } // id 0 => nil map
type MapObj struct {
	keys, vals []Value
}
type IterState struct {
	keys, vals []Value
	pos        int
}
type Opaque struct{ what string } // havoc'd external object
type ChanRef struct{ id int }     // id 0 => nil chan
type ChanObj struct {
	buf    []Value
	cap    int
	closed bool
}

// Addr is a uintptr produced from unsafe.Pointer: pointer plus byte offset term.
type Addr struct {
	p   Ptr
	off *Term
}

// FInt: a float64 known to equal the signed 64-bit integer t exactly (|t| < 2^53 is checked where
// it is created from arithmetic). FCmp: an arbitrary finite float >= 0 represented by its floor and
// whether it has a fractional part; usable in comparisons with exact-integer floats only.
type FInt struct{ t *Term }
type FCmp struct {
	fl   *Term
	frac *Term
}

func (p Ptr) isNil() bool { return p.id == 0 }
func (p Ptr) field(i int) Ptr {
	np := make([]int, len(p.path)+1)
	copy(np, p.path)
	np[len(p.path)] = i
	return Ptr{p.id, np}
}
func ptrEq(a, b Ptr) bool {
	if a.id != b.id || len(a.path) != len(b.path) {
		return false
	}
	for i := range a.path {
		if a.path[i] != b.path[i] {
			return false
		}
	}
	return true
}
func (p Ptr) key() string { return fmt.Sprintf("%d/%v", p.id, p.path) }

type Deferred struct {
	fn   Value
	args []Value
}
type Frame struct {
	fn        *ssa.Function
	block     *ssa.BasicBlock
	prev      *ssa.BasicBlock
	ip        int
	env       map[ssa.Value]Value
	defers    []Deferred
	call      ssa.Value // instruction in caller receiving the result (nil for defers/init)
	deferCall bool
	unwinding bool
	loopCnt   map[int]int // back-edge counts per block index (unwinding bound)
}
type Thread struct {
	frames    []*Frame
	lastClock *Term
	yielded   bool
	spinCell  string // busy-wait detection: last cell loaded without an intervening write by anyone
	spinCount int
	spinSeq   int
	ops       int // shared-memory operations granted to this thread on this path
	panicking bool
	panicV    Value
}
type OpSig struct {
	kind string // load | write | clock | lock
	cell string
}
type SleepEnt struct {
	tid int
	sig OpSig
}

type Input struct {
	Name string
	W    int
}

type State struct {
	job       *Job
	heap      map[int]Value
	nextID    int
	frames    []*Frame // frames of the current thread
	threads   []*Thread
	cur       int
	grant     bool
	midOp     bool // a granted visible operation is being executed (forks created by it must not be rescheduled)
	sleep     []SleepEnt
	clock     *Term // last value handed out by the symbolic clock (ms or ns as set by harness)
	sched     []int
	schedOps  []string // debugging (SYMGO_TRACE_SCHED): the operation granted at each schedule entry
	writeSeq  int // number of visible writes so far (busy-wait detection)
	panicking bool
	panicV    Value
	ghost     map[string]Value
	pc        []*Term
	model     Model // satisfies pc (variables absent are 0); nil = unknown
	inputs    []Input
	seq       int
	reach     map[string]bool
	steps     int
	obs       []ObsEnt
	failed    []string
}

type ObsEnt struct {
	name string
	v    Value
}

func cloneFrames(fs []*Frame) []*Frame {
	out := make([]*Frame, len(fs))
	for i, f := range fs {
		nf := *f
		nf.env = make(map[ssa.Value]Value, len(f.env))
		for k, v := range f.env {
			nf.env[k] = v
		}
		nf.defers = append([]Deferred(nil), f.defers...)
		if f.loopCnt != nil {
			nf.loopCnt = make(map[int]int, len(f.loopCnt))
			for k, v := range f.loopCnt {
				nf.loopCnt[k] = v
			}
		}
		out[i] = &nf
	}
	return out
}

func (s *State) clone() *State {
	n := &State{job: s.job, heap: make(map[int]Value, len(s.heap)), nextID: s.nextID, seq: s.seq,
		cur: s.cur, grant: s.grant, midOp: s.midOp, clock: s.clock, panicking: s.panicking, panicV: s.panicV, writeSeq: s.writeSeq,
		ghost: make(map[string]Value, len(s.ghost)), model: s.model, steps: s.steps}
	for k, v := range s.ghost {
		n.ghost[k] = v
	}
	for k, v := range s.heap {
		n.heap[k] = v
	}
	n.frames = cloneFrames(s.frames)
	for i, t := range s.threads {
		nt := &Thread{lastClock: t.lastClock, yielded: t.yielded, panicking: t.panicking, panicV: t.panicV, spinCell: t.spinCell, spinCount: t.spinCount, spinSeq: t.spinSeq, ops: t.ops}
		if i != s.cur {
			nt.frames = cloneFrames(t.frames)
		}
		n.threads = append(n.threads, nt)
	}
	n.sleep = append([]SleepEnt(nil), s.sleep...)
	n.sched = append([]int(nil), s.sched...)
	n.schedOps = append([]string(nil), s.schedOps...)
	n.pc = append(make([]*Term, 0, len(s.pc)+8), s.pc...)
	n.inputs = append([]Input(nil), s.inputs...)
	n.obs = append([]ObsEnt(nil), s.obs...)
	n.failed = append([]string(nil), s.failed...)
	n.reach = make(map[string]bool, len(s.reach))
	for k := range s.reach {
		n.reach[k] = true
	}
	return n
}

func (s *State) switchTo(t int) {
	if len(s.threads) == 0 {
		return
	}
	s.threads[s.cur].frames = s.frames
	s.threads[s.cur].panicking, s.threads[s.cur].panicV = s.panicking, s.panicV
	s.cur = t
	s.frames = s.threads[t].frames
	s.panicking, s.panicV = s.threads[t].panicking, s.threads[t].panicV
}

// ---------------- engine ----------------

type Engine struct {
	prog     *ssa.Program
	globals  map[*ssa.Global]int
	gByName  map[string]*ssa.Global
	nGlobals int
	rtPkg    *ssa.Package
	sstats   *SolverStats

	qmu     sync.Mutex
	qcond   *sync.Cond
	work    []*State
	active  int
	aborted bool
}

var E *Engine

type pathEnd struct{ why string }

func bail(f string, a ...interface{}) { panic(pathEnd{fmt.Sprintf(f, a...)}) }

type engineErr struct{ msg string }

func unsupported(f string, a ...interface{}) { panic(engineErr{fmt.Sprintf(f, a...)}) }

type goPanic struct{ v Value }

var opaqueErrType = types.NewNamed(types.NewTypeName(0, nil, "opaqueError", nil), types.NewStruct(nil, nil), nil)

func throwRT(msg string) {
	panic(goPanic{Iface{t: opaqueErrType, v: Opaque{"runtime error: " + msg}}})
}

func (e *Engine) push(s *State) {
	atomic.AddInt64(&s.job.pending, 1)
	e.qmu.Lock()
	e.work = append(e.work, s)
	e.qmu.Unlock()
	e.qcond.Signal()
}

// ---------------- types helpers ----------------

func bvInfo(t types.Type) (w int, signed bool, ok bool) {
	b, isB := t.Underlying().(*types.Basic)
	if !isB {
		return 0, false, false
	}
	switch b.Kind() {
	case types.Int8:
		return 8, true, true
	case types.Int16:
		return 16, true, true
	case types.Int32, types.UntypedRune:
		return 32, true, true
	case types.Int64, types.Int, types.UntypedInt:
		return 64, true, true
	case types.Uint8:
		return 8, false, true
	case types.Uint16:
		return 16, false, true
	case types.Uint32:
		return 32, false, true
	case types.Uint64, types.Uint, types.Uintptr:
		return 64, false, true
	}
	return 0, false, false
}

func isBool(t types.Type) bool {
	b, ok := t.Underlying().(*types.Basic)
	return ok && b.Info()&types.IsBoolean != 0
}
func isString(t types.Type) bool {
	b, ok := t.Underlying().(*types.Basic)
	return ok && b.Info()&types.IsString != 0
}
func isFloatT(t types.Type) bool {
	b, ok := t.Underlying().(*types.Basic)
	return ok && b.Info()&types.IsFloat != 0
}

func zero(t types.Type) Value {
	switch u := t.Underlying().(type) {
	case *types.Basic:
		if w, _, ok := bvInfo(t); ok {
			return BV(w, 0)
		}
		if isBool(t) {
			return Bool(false)
		}
		if isString(t) {
			return ""
		}
		if u.Kind() == types.UnsafePointer {
			return Ptr{}
		}
		if u.Kind() == types.UntypedNil {
			return nil
		}
		if u.Info()&types.IsFloat != 0 {
			return FInt{BV(64, 0)}
		}
		unsupported("zero of basic %v", t)
	case *types.Pointer:
		return Ptr{}
	case *types.Struct:
		tu := make(Tuple, u.NumFields())
		for i := range tu {
			tu[i] = zero(u.Field(i).Type())
		}
		return tu
	case *types.Array:
		tu := make(Tuple, u.Len())
		z := zero(u.Elem())
		for i := range tu {
			tu[i] = z
		}
		return tu
	case *types.Slice:
		return SliceV{isNil: true}
	case *types.Interface:
		return Iface{}
	case *types.Map:
		return MapRef{}
	case *types.Signature:
		return (*Closure)(nil)
	case *types.Chan:
		return ChanRef{}
	case *types.Tuple:
		tu := make(Tuple, u.Len())
		for i := range tu {
			tu[i] = zero(u.At(i).Type())
		}
		return tu
	}
	unsupported("zero of %v", t)
	return nil
}

// ---------------- heap ----------------

func (s *State) alloc(v Value) Ptr {
	s.nextID++
	s.heap[s.nextID] = v
	return Ptr{id: s.nextID}
}

func getPath(v Value, path []int) Value {
	for _, i := range path {
		tu, ok := v.(Tuple)
		if !ok {
			unsupported("getPath into %T", v)
		}
		if i < 0 || i >= len(tu) {
			throwRT(fmt.Sprintf("index out of range (heap) %d/%d", i, len(tu)))
		}
		v = tu[i]
	}
	return v
}
func setPath(v Value, path []int, nv Value) Value {
	if len(path) == 0 {
		return nv
	}
	tu, ok := v.(Tuple)
	if !ok {
		unsupported("setPath into %T", v)
	}
	i := path[0]
	if i < 0 || i >= len(tu) {
		throwRT(fmt.Sprintf("index out of range (heap store) %d/%d", i, len(tu)))
	}
	n := make(Tuple, len(tu))
	copy(n, tu)
	n[i] = setPath(tu[i], path[1:], nv)
	return n
}

func (s *State) cell(id int) Value {
	v, ok := s.heap[id]
	if !ok {
		unsupported("dangling cell %d", id)
	}
	return v
}

func (s *State) load(p Ptr) Value {
	if p.isNil() {
		throwRT("invalid memory address or nil pointer dereference")
	}
	s.checkGuard(p, "read")
	return getPath(s.cell(p.id), p.path)
}
func (s *State) store(p Ptr, v Value) {
	if p.isNil() {
		throwRT("invalid memory address or nil pointer dereference (store)")
	}
	s.checkGuard(p, "write")
	s.heap[p.id] = setPath(s.cell(p.id), p.path, v)
}

func (s *State) sliceElems(sl SliceV) Tuple {
	if sl.len == 0 {
		return nil
	}
	arr := getPath(s.cell(sl.arr.id), sl.arr.path).(Tuple)
	return arr[sl.off : sl.off+sl.len]
}

// checkGuard implements the lock-discipline assertion of C15(a): a registered guarded variable or
// object may only be read with its mutex held (any mode) and written with it held exclusively; a
// frozen object (a published, immutable slice backing array) may not be written at all.
func (s *State) checkGuard(p Ptr, how string) { s.checkGuardID(p.id, how) }

func (s *State) checkGuardID(id int, how string) {
	if len(s.ghost) == 0 {
		return
	}
	if fz, ok := s.ghost[fmt.Sprintf("frozen/%d", id)]; ok && how == "write" {
		s.job.violation(s, "immutability: write to "+fz.(string)+" after it was published to lock-free readers", where(s), nil)
		return
	}
	g, ok := s.ghost[fmt.Sprintf("guard/%d", id)]
	if !ok {
		return
	}
	gi := g.(Tuple)
	mk := gi[0].(string)
	held := false
	if mp, isPlain := gi[2].(Ptr); isPlain && gi[3].(*Term).val == 0 {
		// sync.Mutex: held iff its state word is non-zero
		if st, ok := getPath(s.cell(mp.id), append(append([]int(nil), mp.path...), 0)).(*Term); ok {
			held = !(st.isConst() && st.val == 0)
		}
	} else {
		w, _ := s.ghost["wheld/"+mk].(*Term)
		r, _ := s.ghost["rheld/"+mk].(*Term)
		held = (w != nil && w.val > 0) || (how == "read" && r != nil && r.val > 0)
	}
	if len(gi) > 4 { // GuardAlt: a plain mutex every writer holds as well
		ap := gi[4].(Ptr)
		altHeld := false
		if st, ok := getPath(s.cell(ap.id), append(append([]int(nil), ap.path...), 0)).(*Term); ok {
			altHeld = !(st.isConst() && st.val == 0)
		}
		if how == "read" {
			held = held || altHeld
		} else if held && !altHeld {
			s.job.violation(s, fmt.Sprintf("lock discipline: write of %s without holding the update mutex its lock-free-of-the-RWMutex readers rely on", gi[1].(string)), where(s), nil)
			return
		}
	}
	if !held {
		s.job.violation(s, fmt.Sprintf("lock discipline: %s of %s without holding its mutex", how, gi[1].(string)), where(s), nil)
	}
}

func where(s *State) string {
	if len(s.frames) == 0 {
		return "<end>"
	}
	f := s.frames[len(s.frames)-1]
	pos := token.NoPos
	if f.ip < len(f.block.Instrs) {
		pos = f.block.Instrs[f.ip].Pos()
	}
	if pos == token.NoPos {
		for i := f.ip; i >= 0 && i < len(f.block.Instrs); i-- {
			if p := f.block.Instrs[i].Pos(); p != token.NoPos {
				pos = p
				break
			}
		}
	}
	return fmt.Sprintf("%s (%v)", f.fn.String(), E.prog.Fset.Position(pos))
}

func stackOf(s *State) string {
	out := ""
	for i := len(s.frames) - 1; i >= 0 && i >= len(s.frames)-8; i-- {
		out += s.frames[i].fn.String() + " <- "
	}
	return out
}

func sortedKeys(m map[string]int) []string {
	ks := make([]string, 0, len(m))
	for k := range m {
		ks = append(ks, k)
	}
	sort.Strings(ks)
	return ks
}
