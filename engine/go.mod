module symgo

go 1.23

require golang.org/x/tools v0.29.0

require (
	golang.org/x/mod v0.22.0 // indirect
	golang.org/x/sync v0.10.0 // indirect
)
