package main

// Worker: owns solver processes; explores one path at a time. Solver-facing primitives
// (feasibility, branching, concretisation, assertions) with model-guided pruning (DESIGN A.6).

import (
	"fmt"
	"os"
	"sort"
	"sync/atomic"
)

type Worker struct {
	eng     *Engine
	id      int
	solvers *Solvers
	longTO  bool // the next query may take five times the ordinary limit
}

var noSlice = os.Getenv("SYMGO_NOSLICE") != ""

func pcHas(s *State, c *Term) bool {
	for i := len(s.pc) - 1; i >= 0; i-- {
		if s.pc[i] == c {
			return true
		}
	}
	return false
}

func (s *State) addPC(c *Term) {
	if c.isTrue() || pcHas(s, c) {
		return
	}
	// split conjunctions so membership tests stay useful
	if c.op == "and" {
		s.addPC(c.args[0])
		s.addPC(c.args[1])
		return
	}
	s.pc = append(s.pc, c)
}

func modelSays(s *State, c *Term) (bool, bool) {
	if s.model == nil {
		return false, false
	}
	return evalTerm(c, s.model) != 0, true
}

// sat decides pc ∧ c. Returns (result, model) with result in sat|unsat|unknown.
func (w *Worker) sat(s *State, c *Term) (string, Model) {
	if c.isFalse() {
		return "unsat", nil
	}
	if pcHas(s, Not(c)) {
		return "unsat", nil
	}
	if c.isTrue() || pcHas(s, c) {
		if s.model != nil {
			return "sat", s.model
		}
	}
	if v, ok := modelSays(s, c); ok && v {
		atomic.AddInt64(&w.eng.sstats.ModelHits, 1)
		return "sat", s.model
	}
	var as []*Term
	sliced := false
	if s.model != nil && !noSlice {
		// constraint independence: the rest of pc is satisfied by s.model and shares no variable
		as = append(sliceFor(s.pc, c), c)
		sliced = true
	} else {
		as = make([]*Term, 0, len(s.pc)+1)
		as = append(as, s.pc...)
		as = append(as, c)
	}
	r, m := w.solveRaw(as)
	if r == "unknown" {
		s.job.note("solver-unknown(feasibility)")
	}
	if r == "sat" && sliced {
		merged := make(Model, len(s.model)+len(m))
		for k, v := range s.model {
			merged[k] = v
		}
		for k, v := range m {
			merged[k] = v
		}
		m = merged
	}
	return r, m
}

// feasible treats unknown as feasible (explores more, never less).
func (w *Worker) feasible(s *State, c *Term) (bool, Model) {
	r, m := w.sat(s, c)
	return r != "unsat", m
}

// decide forks on a symbolic boolean inside an instruction that has not yet had side effects.
// The clone re-executes the same instruction with the negated condition in its path condition.
func (w *Worker) decide(s *State, c *Term) bool {
	if c.isTrue() {
		return true
	}
	if c.isFalse() {
		return false
	}
	if pcHas(s, c) {
		return true
	}
	if pcHas(s, Not(c)) {
		return false
	}
	ft, mt := w.feasible(s, c)
	ff, mf := w.feasible(s, Not(c))
	switch {
	case ft && ff:
		ns := s.clone()
		ns.addPC(Not(c))
		ns.model = mf
		s.job.fork()
		w.eng.push(ns)
		s.addPC(c)
		s.model = mt
		return true
	case ft:
		s.addPC(c)
		s.model = mt
		return true
	case ff:
		s.addPC(Not(c))
		s.model = mf
		return false
	}
	bail("infeasible path")
	return false
}

func (w *Worker) branch(s *State, f *Frame, c *Term) {
	take := func(fr *Frame, which int) {
		fr.prev, fr.block, fr.ip = fr.block, fr.block.Succs[which], 0
	}
	if c.isTrue() || pcHas(s, c) {
		take(f, 0)
		return
	}
	if c.isFalse() || pcHas(s, Not(c)) {
		take(f, 1)
		return
	}
	ft, mt := w.feasible(s, c)
	ff, mf := w.feasible(s, Not(c))
	switch {
	case ft && ff:
		ns := s.clone()
		ns.addPC(Not(c))
		ns.model = mf
		take(ns.frames[len(ns.frames)-1], 1)
		s.job.fork()
		w.eng.push(ns)
		s.addPC(c)
		s.model = mt
		take(f, 0)
	case ft:
		s.addPC(c)
		s.model = mt
		take(f, 0)
	case ff:
		s.addPC(Not(c))
		s.model = mf
		take(f, 1)
	default:
		bail("infeasible path")
	}
}

const maxSelector = 64

// concretize enumerates the feasible values of t. With several values it pushes clones of the
// state (same instruction pointer, extra path constraint) and constrains the current one.
// Must be called before the instruction has side effects.
func (w *Worker) concretize(s *State, t *Term) uint64 {
	if t.isConst() {
		return t.val
	}
	type vm struct {
		v uint64
		m Model
	}
	var vals []vm
	excl := Bool(true)
	for len(vals) <= maxSelector {
		var r string
		var m Model
		if len(vals) == 0 && s.model != nil {
			r, m = "sat", s.model
		} else {
			r, m = w.sat(s, excl)
		}
		if r == "unknown" {
			unsupported("solver unknown while enumerating a selector at %s", where(s))
		}
		if r != "sat" {
			break
		}
		v := evalTerm(t, m)
		vals = append(vals, vm{v, m})
		excl = And(excl, Not(Cmp("=", t, BV(t.w, v))))
	}
	if len(vals) == 0 {
		bail("infeasible at concretize")
	}
	if len(vals) > maxSelector {
		unsupported("selector has more than %d feasible values at %s", maxSelector, where(s))
	}
	sort.Slice(vals, func(i, j int) bool { return vals[i].v < vals[j].v })
	for i := 1; i < len(vals); i++ {
		ns := s.clone()
		ns.addPC(Cmp("=", t, BV(t.w, vals[i].v)))
		ns.model = vals[i].m
		s.job.fork()
		w.eng.push(ns)
	}
	if len(vals) > 1 {
		s.addPC(Cmp("=", t, BV(t.w, vals[0].v)))
	}
	s.model = vals[0].m
	return vals[0].v
}

func (w *Worker) assume(s *State, c *Term) {
	if c.isTrue() {
		return
	}
	r, m := w.sat(s, c)
	if r == "unsat" {
		bail("assume infeasible")
	}
	s.addPC(c)
	s.model = m
}

// assert discharges pc ⇒ c. known != "" names an open known finding whose region excuses the failure.
func (w *Worker) assert(s *State, c *Term, msg string) {
	j := s.job
	atomic.AddInt64(&j.Obligations, 1)
	if c.isTrue() || pcHas(s, c) {
		atomic.AddInt64(&j.Discharged, 1)
		j.sample(s, msg, "trivially true on this path")
		return
	}
	r, m := w.sat(s, Not(c))
	if r == "unknown" {
		// an obligation is never given up at the ordinary limit: one more attempt with five times the time
		// (a wall-clock limit also fires when the machine is merely busy)
		w.longTO = true
		r, m = w.sat(s, Not(c))
		w.longTO = false
		j.note("obligation retried with the extended limit: " + r)
	}
	switch r {
	case "unsat":
		atomic.AddInt64(&j.Discharged, 1)
		j.sample(s, msg, "unsat")
		s.addPC(c)
		return
	case "unknown":
		atomic.AddInt64(&j.Inconclusive, 1)
		j.note("UNDISCHARGED (solver unknown): " + msg)
		s.addPC(c)
		s.model = nil
		return
	}
	j.violation(s, msg, where(s), m)
	// continue the path under the assertion if that is possible at all
	if ok, m2 := w.feasible(s, c); ok {
		s.addPC(c)
		s.model = m2
	} else {
		s.failed = append(s.failed, msg) // fails for every value on this path
	}
}

// provesSmall reports whether |t| (signed view) < 2^53 under the path condition.
func (w *Worker) provesSmall(s *State, t *Term) bool {
	if nonneg(t) && umax(t) < 1<<53 {
		return true
	}
	if t.w < 53 {
		return true
	}
	neg := int64(-1) << 53
	big := Or(Cmp("bvsle", BV(64, 1<<53), t), Cmp("bvsle", t, BV(64, uint64(neg))))
	r, _ := w.sat(s, big)
	return r == "unsat"
}

func fmtModel(inputs []Input, m Model) string {
	out := ""
	for _, in := range inputs {
		v := m[in.Name]
		if in.W == FP {
			out += fmt.Sprintf("%s=%v ", in.Name, fmtF(v))
		} else {
			out += fmt.Sprintf("%s=%d ", in.Name, v)
		}
	}
	return out
}
