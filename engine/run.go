package main

// Loading (/repo + overlay -> go/ssa), the worker pool and the per-path step loop.

import (
	"fmt"
	"os"
	"path/filepath"
	"sort"
	"strings"
	"sync"
	"sync/atomic"
	"time"

	"golang.org/x/tools/go/packages"
	"golang.org/x/tools/go/ssa"
	"golang.org/x/tools/go/ssa/ssautil"
)

var (
	repoRoot  = envOr("REPO_ROOT", "/repo")
	verifRoot = envOr("VERIF_ROOT", defaultVerifRoot())
	verbose   = os.Getenv("SYMGO_VERBOSE") != ""
)

// defaultVerifRoot: the directory that holds bin/symgo (so a snapshot of /verif uses its own
// harnesses, checks and evidence), else /verif.
func defaultVerifRoot() string {
	if exe, err := os.Executable(); err == nil {
		root := filepath.Dir(filepath.Dir(exe))
		if st, err := os.Stat(filepath.Join(root, "checks")); err == nil && st.IsDir() {
			return root
		}
	}
	return "/verif"
}

func envOr(k, d string) string {
	if v := os.Getenv(k); v != "" {
		return v
	}
	return d
}

// buildOverlay maps every file under /verif/harness to the same relative path under /repo.
// Files carrying the replay build tag are left out for the engine (it loads the symbolic stubs).
func buildOverlay(forReplay bool) map[string][]byte { return buildOverlayFor("") }

// buildOverlayFor: dir != "" additionally maps the verifrt package into <dir>/zzverif/verifrt, because a
// package directory that exists only in the overlay is not found inside a replaced dependency module.
func buildOverlayFor(dir string) map[string][]byte {
	ov := map[string][]byte{}
	defer func() {
		if dir == "" {
			return
		}
		rtDir := filepath.Join(verifRoot, "harness", "zzverif", "verifrt")
		ents, _ := os.ReadDir(rtDir)
		for _, e := range ents {
			if strings.HasSuffix(e.Name(), ".go") {
				if b, err := os.ReadFile(filepath.Join(rtDir, e.Name())); err == nil {
					ov[filepath.Join(repoRoot, dir, "zzverif", "verifrt", e.Name())] = b
				}
			}
		}
	}()
	root := filepath.Join(verifRoot, "harness")
	filepath.Walk(root, func(p string, info os.FileInfo, err error) error {
		if err != nil || info.IsDir() || !strings.HasSuffix(p, ".go") {
			return nil
		}
		rel, _ := filepath.Rel(root, p)
		b, err := os.ReadFile(p)
		if err != nil {
			return nil
		}
		ov[filepath.Join(repoRoot, rel)] = b
		return nil
	})
	return ov
}

func loadProgram(dir string, pkgPatterns []string) (*ssa.Program, []*ssa.Package, error) {
	loadDir := filepath.Join(repoRoot, dir)
	cfg := &packages.Config{Mode: packages.LoadAllSyntax, Dir: loadDir,
		Env:     append(os.Environ(), "GOFLAGS=-mod=mod", "GOPROXY=off", "GOSUMDB=off", "GOTOOLCHAIN=local"),
		Overlay: buildOverlayFor(dir)}
	pkgs, err := packages.Load(cfg, pkgPatterns...)
	if err != nil {
		return nil, nil, err
	}
	nerr := 0
	packages.Visit(pkgs, nil, func(p *packages.Package) {
		for _, e := range p.Errors {
			if nerr < 10 {
				fmt.Fprintln(os.Stderr, "load error:", e)
			}
			nerr++
		}
	})
	if nerr > 0 {
		return nil, nil, fmt.Errorf("%d package load errors", nerr)
	}
	prog, sp := ssautil.AllPackages(pkgs, ssa.InstantiateGenerics)
	prog.Build()
	return prog, sp, nil
}

func setupEngine(prog *ssa.Program) *Engine {
	e := &Engine{prog: prog, globals: map[*ssa.Global]int{}, gByName: map[string]*ssa.Global{}, sstats: &SolverStats{}}
	e.qcond = sync.NewCond(&e.qmu)
	var all []*ssa.Global
	for _, p := range prog.AllPackages() {
		for _, m := range p.Members {
			if g, ok := m.(*ssa.Global); ok {
				all = append(all, g)
			}
		}
		if strings.HasSuffix(p.Pkg.Path(), "/zzverif/verifrt") && (e.rtPkg == nil || p.Pkg.Path() != rtPath) {
			e.rtPkg = p
		}
	}
	sort.Slice(all, func(i, j int) bool { return all[i].String() < all[j].String() })
	for i, g := range all {
		e.globals[g] = i + 1
		e.gByName[g.String()] = g
	}
	e.nGlobals = len(all)
	return e
}

// start creates the initial state of a job: package init of the harness package, then the harness.
func (e *Engine) start(j *Job, pkg *ssa.Package) error {
	h := pkg.Func(j.Spec.Fn)
	if h == nil {
		return fmt.Errorf("no harness function %s in %s", j.Spec.Fn, pkg.Pkg.Path())
	}
	st := &State{job: j, heap: map[int]Value{}, nextID: e.nGlobals, reach: map[string]bool{}, ghost: map[string]Value{}, model: Model{}}
	st.frames = []*Frame{newFrame(h, nil, nil), newFrame(pkg.Func("init"), nil, nil)}
	j.t0 = time.Now()
	e.push(st)
	return nil
}

func (e *Engine) pop() *State {
	e.qmu.Lock()
	defer e.qmu.Unlock()
	for {
		if n := len(e.work); n > 0 {
			s := e.work[n-1]
			e.work = e.work[:n-1]
			e.active++
			return s
		}
		if e.active == 0 {
			e.qcond.Broadcast()
			return nil
		}
		e.qcond.Wait()
	}
}

func (e *Engine) finished() {
	e.qmu.Lock()
	e.active--
	if e.active == 0 && len(e.work) == 0 {
		e.qcond.Broadcast()
	}
	e.qmu.Unlock()
}

func (e *Engine) runWorkers(n int) {
	var wg sync.WaitGroup
	for i := 0; i < n; i++ {
		wg.Add(1)
		go func(id int) {
			defer wg.Done()
			w := &Worker{eng: e, id: id, solvers: newSolvers()}
			defer w.solvers.close()
			for {
				s := e.pop()
				if s == nil {
					return
				}
				if atomic.LoadInt64(&s.job.stopped) == 0 {
					w.runPath(s)
				} else {
					atomic.AddInt64(&s.job.Pruned, 1) // the job already ended with a livelock verdict
				}
				j := s.job
				if atomic.AddInt64(&j.pending, -1) == 0 {
					j.wall = time.Since(j.t0)
					close(j.done)
				}
				e.finished()
			}
		}(i)
	}
	wg.Wait()
}

const defaultMaxSteps = 4000000

func (w *Worker) runPath(s *State) {
	j := s.job
	defer func() {
		if r := recover(); r != nil {
			switch x := r.(type) {
			case pathEnd:
				w.endOfPath(s, x.why)
			case engineErr:
				j.engineErr(x.msg + " at " + where(s) + " stack " + stackOf(s))
			default:
				j.engineErr(fmt.Sprintf("internal panic: %v at %s stack %s", r, where(s), stackOf(s)))
				if verbose {
					panic(r)
				}
			}
		}
	}()
	maxSteps := defaultMaxSteps
	if j.Spec.MaxStep > 0 {
		maxSteps = j.Spec.MaxStep
	}
	for {
		if len(s.frames) == 0 {
			if len(s.threads) <= 1 || s.cur == 0 {
				break
			}
			if !w.schedule(s) {
				bail("pruned by sleep set")
			}
			continue
		}
		if len(s.threads) > 1 {
			f := s.frames[len(s.frames)-1]
			if s.cur == 0 && isSettle(w, s, f) && w.othersRunnable(s) {
				if !w.schedule(s) {
					bail("pruned by sleep set")
				}
				continue
			}
			if isJoin(w, s, f) && !s.othersDone() {
				if !w.schedule(s) {
					bail("pruned by sleep set")
				}
				continue
			}
			if _, vis, _ := w.visibleSig(s, f); vis {
				if !s.grant && !s.midOp {
					if !w.schedule(s) {
						bail("pruned by sleep set")
					}
					continue
				}
				s.grant = false
				s.midOp = true
			}
		}
		var pending *goPanic
		catch := func(f func()) {
			defer func() {
				if r := recover(); r != nil {
					gp, ok := r.(goPanic)
					if !ok {
						panic(r)
					}
					pending = &gp
				}
			}()
			f()
		}
		catch(func() { w.step(s) })
		s.midOp = false
		for pending != nil { // a Go panic raised by the step, or by a deferred call run while unwinding
			gp := pending
			pending = nil
			s.panicking, s.panicV = true, gp.v
			catch(func() { w.unwind(s) })
		}
		s.steps++
		if s.steps > maxSteps {
			unsupported("step limit %d reached (non-terminating path?)", maxSteps)
		}
	}
	j.pathDone(s)
}

func (w *Worker) endOfPath(s *State, why string) {
	j := s.job
	switch {
	case strings.HasPrefix(why, "UNCAUGHT PANIC"), strings.HasPrefix(why, "FATAL"), strings.HasPrefix(why, "NONTERMINATION"), strings.HasPrefix(why, "DEADLOCK"):
		atomic.AddInt64(&j.Panics, 1)
		m := s.model
		if m == nil {
			if r, mm := w.sat(s, Bool(true)); r == "sat" {
				m = mm
			}
		}
		msg := why
		if i := strings.Index(msg, " at "); i > 0 && strings.HasPrefix(why, "FATAL") {
			msg = msg[:i]
		}
		if strings.HasPrefix(why, "UNCAUGHT PANIC") {
			msg = "panic leaves the harness: " + panicText(s.panicV)
		}
		j.violation(s, msg, why, m)
		j.pathDone(s)
	case strings.HasPrefix(why, "pruned"):
		atomic.AddInt64(&j.Pruned, 1)
	default: // infeasible path / assume infeasible
		atomic.AddInt64(&j.Pruned, 1)
		j.note(why)
	}
}

func panicText(v Value) string {
	switch x := v.(type) {
	case Iface:
		return panicText(x.v)
	case Opaque:
		return x.what
	case string:
		return x
	}
	return fmt.Sprintf("%v", v)
}
