package main

import (
	"flag"
	"fmt"
	"math"
	"os"
	"sort"
	"strconv"
	"strings"
	"time"
)

func float64frombits(b uint64) float64 { return math.Float64frombits(b) }

func usage() {
	fmt.Fprintln(os.Stderr, `usage:
  symgo run   --dir <module dir rel. to /repo> --pkg ./core/isolation --fn VerifC04Step [--param K=3]... [--workers N]
  symgo check <ID> --tier quick|thorough
  symgo replay <file>
  symgo list`)
	os.Exit(2)
}

type multi []string

func (m *multi) String() string     { return strings.Join(*m, ",") }
func (m *multi) Set(v string) error { *m = append(*m, v); return nil }

func main() {
	if len(os.Args) < 2 {
		usage()
	}
	switch os.Args[1] {
	case "run":
		cmdRun(os.Args[2:])
	case "check":
		os.Exit(cmdCheck(os.Args[2:]))
	case "replay":
		os.Exit(cmdReplay(os.Args[2:]))
	case "list":
		cmdList()
	default:
		usage()
	}
}

func cmdRun(args []string) {
	fs := flag.NewFlagSet("run", flag.ExitOnError)
	dir := fs.String("dir", "", "module dir relative to the repo root")
	pkg := fs.String("pkg", "", "package pattern")
	fn := fs.String("fn", "", "harness function")
	workers := fs.Int("workers", 16, "workers")
	known := fs.String("known", "", "comma separated open known findings")
	var params, execs multi
	fs.Var(&params, "param", "K=V")
	fs.Var(&execs, "exec", "package path whose functions are executed instead of havoc'd")
	fs.Parse(args)
	spec := JobSpec{Name: *fn, Dir: *dir, Pkg: *pkg, Fn: *fn, Params: map[string]int64{}, Exec: execs}
	for _, p := range params {
		kv := strings.SplitN(p, "=", 2)
		v, _ := strconv.ParseInt(kv[1], 10, 64)
		spec.Params[kv[0]] = v
		spec.Name += "," + p
	}
	ko := map[string]bool{}
	for _, k := range strings.Split(*known, ",") {
		if k != "" {
			ko[k] = true
		}
	}
	t0 := time.Now()
	jobs, eng, err := runGroup(*dir, []JobSpec{spec}, ko, *workers)
	if err != nil {
		fmt.Println("ENGINE-ERROR:", err)
		os.Exit(2)
	}
	fmt.Printf("total %.1fs\n", time.Since(t0).Seconds())
	for _, j := range jobs {
		printJob(j, eng)
	}
}

func printJob(j *Job, eng *Engine) {
	st := eng.sstats
	fmt.Printf("job %s: wall=%.1fs paths=%d forks=%d pruned=%d obligations=%d discharged=%d inconclusive=%d panics=%d violations=%d\n",
		j.Spec.Name, j.wall.Seconds(), j.Paths, j.Forks, j.Pruned, j.Obligations, j.Discharged, j.Inconclusive, j.Panics, len(j.viol))
	fmt.Printf("  solver: queries=%d sat=%d unsat=%d unknown=%d cachehits=%d modelhits=%d time=%.1fs by=%v\n",
		st.Queries, st.Sat, st.Unsat, st.Unknown, st.CacheHits, st.ModelHits, float64(st.Nanos)/1e9, st.ByBackend)
	fmt.Println("  reach:", j.reach)
	var fl []string
	for f := range j.funcs {
		if strings.Contains(f, modPrefix) {
			fl = append(fl, strings.ReplaceAll(f, modPrefix+"/", ""))
		}
	}
	sort.Strings(fl)
	fmt.Println("  functions encoded:", len(fl))
	if verbose {
		fmt.Println("   ", fl)
	}
	fmt.Println("  stubs:", j.stubs)
	fmt.Println("  notes:", j.notes)
	for _, e := range j.engineErrs {
		fmt.Println("  ENGINE-ERROR:", e)
	}
	for id, v := range j.known {
		fmt.Printf("  KNOWN %s: %q paths=%d %v\n", id, v.Msg, v.Count, fmtInputs(v.Inputs))
	}
	for _, v := range sortedViol(j) {
		fmt.Printf("  COUNTEREXAMPLE %q paths=%d at %s\n     %v sched=%v\n", v.Msg, v.Count, v.Where, fmtInputs(v.Inputs), v.Sched)
	}
}

func sortedViol(j *Job) []*Violation {
	var vs []*Violation
	for _, v := range j.viol {
		vs = append(vs, v)
	}
	sort.Slice(vs, func(a, b int) bool { return vs[a].Msg < vs[b].Msg })
	return vs
}

func fmtInputs(in []ReplayInput) string {
	var sb strings.Builder
	for _, i := range in {
		if i.W == FP {
			b, _ := strconv.ParseUint(i.Val, 10, 64)
			fmt.Fprintf(&sb, "%s=%v ", i.Name, math.Float64frombits(b))
		} else {
			fmt.Fprintf(&sb, "%s=%s ", i.Name, i.Val)
		}
	}
	return sb.String()
}

// runGroup loads one module directory once and runs all given jobs on a shared worker pool.
func runGroup(dir string, specs []JobSpec, knownOpen map[string]bool, workers int) ([]*Job, *Engine, error) {
	pats := map[string]bool{}
	for _, sp := range specs {
		pats[sp.Pkg] = true
	}
	var pl []string
	for p := range pats {
		pl = append(pl, p)
	}
	sort.Strings(pl)
	t0 := time.Now()
	prog, _, err := loadProgram(dir, pl)
	if err != nil {
		return nil, nil, err
	}
	eng := setupEngine(prog)
	E = eng
	if verbose {
		fmt.Printf("load+ssa %.1fs\n", time.Since(t0).Seconds())
	}
	var jobs []*Job
	for _, sp := range specs {
		j := newJob(sp, knownOpen)
		jobs = append(jobs, j)
		var found bool
		for _, p := range prog.AllPackages() {
			if pkgMatches(p.Pkg.Path(), dir, sp.Pkg) && p.Func(sp.Fn) != nil {
				if err := eng.start(j, p); err != nil {
					return nil, nil, err
				}
				found = true
				break
			}
		}
		if !found { // a module whose declared path does not match its directory (kratos declares .../kitex)
			for _, p := range prog.AllPackages() {
				if strings.HasPrefix(p.Pkg.Path(), modPrefix) && p.Func(sp.Fn) != nil {
					if err := eng.start(j, p); err != nil {
						return nil, nil, err
					}
					found = true
					break
				}
			}
		}
		if !found {
			return nil, nil, fmt.Errorf("harness %s not found in %s", sp.Fn, sp.Pkg)
		}
	}
	eng.runWorkers(workers)
	return jobs, eng, nil
}

func pkgMatches(path, dir, pat string) bool {
	pat = strings.TrimPrefix(pat, "./")
	pat = strings.TrimSuffix(pat, "/...")
	if pat == "." {
		pat = ""
	}
	full := strings.Trim(dir+"/"+pat, "/")
	return strings.HasSuffix(path, full) || (full == "" && path == modPrefix)
}
