package main

// Solver back ends: long-lived `cvc5 --incremental` / `z3 -in` processes, one set per worker,
// every query self-contained and followed by (reset). Portfolio: cvc5 first, z3 joins the race
// when cvc5 has not answered quickly; first definitive answer wins; any "(error" = inconclusive.

import (
	"bufio"
	"fmt"
	"io"
	"math"
	"os"
	"os/exec"
	"sort"
	"strconv"
	"strings"
	"sync"
	"sync/atomic"
	"time"
)

type SolverProc struct {
	name  string
	argv  []string
	cmd   *exec.Cmd
	in    io.WriteCloser
	lines chan string
	busy  bool // a query is outstanding whose answer has not been consumed
}

func (p *SolverProc) start() error {
	p.cmd = exec.Command(p.argv[0], p.argv[1:]...)
	in, err := p.cmd.StdinPipe()
	if err != nil {
		return err
	}
	out, err := p.cmd.StdoutPipe()
	if err != nil {
		return err
	}
	p.cmd.Stderr = p.cmd.Stdout
	if err := p.cmd.Start(); err != nil {
		return err
	}
	p.in = in
	ch := make(chan string, 256)
	p.lines = ch
	go func() {
		r := bufio.NewReaderSize(out, 1<<16)
		for {
			l, err := r.ReadString('\n')
			if l != "" {
				ch <- strings.TrimRight(l, "\n")
			}
			if err != nil {
				close(ch)
				return
			}
		}
	}()
	p.busy = false
	return nil
}

func (p *SolverProc) kill() {
	if p.cmd != nil && p.cmd.Process != nil {
		p.cmd.Process.Kill()
		go p.cmd.Wait()
	}
	p.cmd = nil
	p.busy = false
}

const endMark = "@@END@@"

func (p *SolverProc) send(text string) error {
	if p.cmd == nil {
		if err := p.start(); err != nil {
			return err
		}
	}
	_, err := io.WriteString(p.in, text+"(echo \""+endMark+"\")\n")
	if err != nil {
		p.kill()
		return err
	}
	p.busy = true
	return nil
}

type Solvers struct {
	cvc5, z3, z3b *SolverProc
}

func newSolvers() *Solvers {
	return &Solvers{
		cvc5: &SolverProc{name: "cvc5", argv: []string{"cvc5", "--incremental", "--produce-models", "--lang=smt2"}},
		z3:   &SolverProc{name: "z3new", argv: []string{"z3-new", "-in"}},
		z3b:  &SolverProc{name: "z3", argv: []string{"z3", "-in"}},
	}
}

func (s *Solvers) close() {
	s.cvc5.kill()
	s.z3.kill()
	s.z3b.kill()
}

type answer struct {
	who   string
	res   string // sat | unsat | unknown | error
	lines []string
}

// collect reads lines of p until the end mark (or the process dies).
func collect(p *SolverProc, out chan<- answer, stop <-chan struct{}) {
	var ls []string
	ch := p.lines
	for {
		select {
		case l, ok := <-ch:
			if !ok {
				out <- answer{p.name, "error", append(ls, "(error \"solver process died\")")}
				return
			}
			if strings.Contains(l, endMark) {
				out <- classify(p.name, ls)
				return
			}
			ls = append(ls, l)
		case <-stop:
			return
		}
	}
}

func classify(who string, ls []string) answer {
	res := "error"
	for _, l := range ls {
		if strings.Contains(l, "(error") {
			return answer{who, "error", ls}
		}
	}
	for _, l := range ls {
		t := strings.TrimSpace(l)
		if t == "sat" || t == "unsat" || t == "unknown" {
			res = t
			break
		}
	}
	return answer{who, res, ls}
}

type SolverStats struct {
	Queries, Sat, Unsat, Unknown, CacheHits, ModelHits int64
	ByBackend                                       map[string]int64
	Nanos                                           int64
	mu                                              sync.Mutex
}

func (st *SolverStats) won(who string) {
	st.mu.Lock()
	if st.ByBackend == nil {
		st.ByBackend = map[string]int64{}
	}
	st.ByBackend[who]++
	st.mu.Unlock()
}

type cacheEnt struct {
	res   string
	model Model
}

var (
	qCache   sync.Map // script -> cacheEnt
	queryTO  = 60 * time.Second
	raceWait = 150 * time.Millisecond
	dumpSlow = os.Getenv("SYMGO_DUMP_SLOW")
)

// solveRaw decides the conjunction of assertions. Returns sat/unsat/unknown and a model on sat.
func (w *Worker) solveRaw(assertions []*Term) (string, Model) {
	for _, a := range assertions {
		if a.isFalse() {
			return "unsat", nil
		}
	}
	script, decls := ScriptInt(assertions)
	useInt := script != ""
	if !useInt {
		script, decls = Script(assertions)
	}
	st := w.eng.sstats
	if ce, ok := qCache.Load(script); ok {
		atomic.AddInt64(&st.CacheHits, 1)
		e := ce.(cacheEnt)
		return e.res, e.model
	}
	atomic.AddInt64(&st.Queries, 1)
	t0 := time.Now()
	names := make([]string, 0, len(decls))
	for n := range decls {
		names = append(names, n)
	}
	sort.Strings(names)
	full := script + "(check-sat)\n"
	getv := ""
	if len(names) > 0 {
		getv = "(get-value (" + strings.Join(names, " ") + "))\n"
	}
	ans, winner := w.race(full, useInt)
	var model Model
	if ans.res == "sat" {
		model = Model{}
		if getv != "" && winner != nil {
			winner.send(getv)
			out := make(chan answer, 1)
			stop := make(chan struct{})
			go collect(winner, out, stop)
			select {
			case a := <-out:
				winner.busy = false
				if a.res == "error" && len(a.lines) > 0 && strings.Contains(strings.Join(a.lines, " "), "(error") {
					ans.res = "unknown"
				} else {
					parseModel(strings.Join(a.lines, " "), decls, model)
				}
			case <-time.After(20 * time.Second):
				close(stop)
				winner.kill()
				ans.res = "unknown"
			}
		}
	}
	if winner != nil && winner.cmd != nil {
		if err := winner.send("(reset)\n"); err == nil {
			// consume the end mark lazily before the next query
			w.drain(winner)
		}
	}
	d := time.Since(t0)
	atomic.AddInt64(&st.Nanos, int64(d))
	switch ans.res {
	case "sat":
		atomic.AddInt64(&st.Sat, 1)
	case "unsat":
		atomic.AddInt64(&st.Unsat, 1)
	default:
		atomic.AddInt64(&st.Unknown, 1)
		ans.res = "unknown"
		if dumpSlow != "" {
			os.WriteFile(fmt.Sprintf("%s/unknown_%d.smt2", dumpSlow, time.Now().UnixNano()), []byte(full+"; "+strings.Join(ans.lines, "\n; ")), 0644)
		}
	}
	if dumpSlow != "" && atomic.LoadInt64(&st.Queries)%500 == 0 {
		os.WriteFile(fmt.Sprintf("%s/q_%d_%s_%dms.smt2", dumpSlow, time.Now().UnixNano(), ans.res, d.Milliseconds()), []byte(full+getv), 0644)
	}
	if d > 5*time.Second && dumpSlow != "" {
		os.WriteFile(fmt.Sprintf("%s/slow_%d.smt2", dumpSlow, time.Now().UnixNano()), []byte(full), 0644)
	}
	if ans.res != "unknown" {
		st.won(ans.who)
		qCache.Store(script, cacheEnt{ans.res, model})
	}
	return ans.res, model
}

func (w *Worker) drain(p *SolverProc) {
	out := make(chan answer, 1)
	stop := make(chan struct{})
	go collect(p, out, stop)
	select {
	case <-out:
		p.busy = false
	case <-time.After(10 * time.Second):
		close(stop)
		p.kill()
	}
}

// race sends the query to cvc5, lets z3 join after raceWait (immediately for BV/FP scripts),
// returns the first definitive answer and the process that gave it (still holding the context).
func (w *Worker) race(full string, isInt bool) (answer, *SolverProc) {
	sv := w.solvers
	out := make(chan answer, 4)
	stop := make(chan struct{})
	defer close(stop)
	procs := map[string]*SolverProc{}
	launch := func(p *SolverProc) {
		if err := p.send(full); err != nil {
			out <- answer{p.name, "error", []string{"(error \"" + err.Error() + "\")"}}
			return
		}
		procs[p.name] = p
		go collect(p, out, stop)
	}
	launch(sv.cvc5)
	pending := 1
	joined := false
	to := queryTO
	if w.longTO {
		to = 5 * queryTO
	}
	deadline := time.After(to)
	var join <-chan time.Time
	if isInt {
		join = time.After(raceWait)
	} else {
		joined = true
		launch(sv.z3)
		pending++
	}
	var last answer
	for pending > 0 {
		select {
		case a := <-out:
			pending--
			p := procs[a.who]
			if p != nil {
				p.busy = false
			}
			if a.res == "sat" || a.res == "unsat" {
				for n, q := range procs {
					if n != a.who && q.busy {
						q.kill()
					}
				}
				return a, p
			}
			last = a
			if p != nil {
				p.kill() // unknown/error: restart clean next time
			}
			if !joined {
				joined = true
				launch(sv.z3)
				pending++
			}
		case <-join:
			join = nil
			if !joined {
				joined = true
				launch(sv.z3)
				pending++
			}
		case <-deadline:
			for _, q := range procs {
				if q.busy {
					q.kill()
				}
			}
			return answer{"timeout", "unknown", []string{"timeout"}}, nil
		}
	}
	if last.res == "" {
		last.res = "unknown"
	}
	return last, nil
}

// parseModel reads a get-value answer: ((a 5) (b (- 3)) (x (fp #b0 #b... #x...)) (c true))
func parseModel(txt string, decls map[string]int, m Model) {
	toks := tokenize(txt)
	i := 0
	var parseVal func() (uint64, bool)
	parseVal = func() (uint64, bool) {
		if i >= len(toks) {
			return 0, false
		}
		t := toks[i]
		if t == "(" {
			i++
			if i < len(toks) && toks[i] == "-" {
				i++
				v, ok := parseVal()
				i++ // ")"
				return -v, ok
			}
			if i < len(toks) && toks[i] == "fp" {
				i++
				s, _ := parseVal()
				e, _ := parseVal()
				f, _ := parseVal()
				i++
				return s<<63 | e<<52 | f, true
			}
			if i+2 < len(toks) && toks[i] == "_" { // (_ +zero 11 53), (_ NaN 11 53), (_ bvN w)
				kind := toks[i+1]
				for i < len(toks) && toks[i] != ")" {
					i++
				}
				i++
				switch kind {
				case "+zero":
					return 0, true
				case "-zero":
					return 1 << 63, true
				case "+oo":
					return math.Float64bits(math.Inf(1)), true
				case "-oo":
					return math.Float64bits(math.Inf(-1)), true
				case "NaN":
					return math.Float64bits(math.NaN()), true
				}
				if strings.HasPrefix(kind, "bv") {
					v, _ := strconv.ParseUint(kind[2:], 10, 64)
					return v, true
				}
				return 0, false
			}
			// unknown compound: skip
			depth := 1
			for i < len(toks) && depth > 0 {
				if toks[i] == "(" {
					depth++
				} else if toks[i] == ")" {
					depth--
				}
				i++
			}
			return 0, false
		}
		i++
		switch {
		case t == "true":
			return 1, true
		case t == "false":
			return 0, true
		case strings.HasPrefix(t, "#b"):
			v, err := strconv.ParseUint(t[2:], 2, 64)
			return v, err == nil
		case strings.HasPrefix(t, "#x"):
			v, err := strconv.ParseUint(t[2:], 16, 64)
			return v, err == nil
		default:
			v, err := strconv.ParseUint(t, 10, 64)
			return v, err == nil
		}
	}
	// outer list
	if i < len(toks) && toks[i] == "(" {
		i++
	}
	for i < len(toks) {
		if toks[i] != "(" {
			i++
			continue
		}
		i++
		if i >= len(toks) {
			break
		}
		name := toks[i]
		i++
		v, ok := parseVal()
		if ok {
			if _, known := decls[name]; known {
				m[name] = v
			}
		}
		if i < len(toks) && toks[i] == ")" {
			i++
		}
	}
}

func tokenize(s string) []string {
	var toks []string
	cur := strings.Builder{}
	flush := func() {
		if cur.Len() > 0 {
			toks = append(toks, cur.String())
			cur.Reset()
		}
	}
	for _, r := range s {
		switch r {
		case '(', ')':
			flush()
			toks = append(toks, string(r))
		case ' ', '\t', '\n', '\r':
			flush()
		default:
			cur.WriteRune(r)
		}
	}
	flush()
	return toks
}
