package main

// Hash-consed terms over Bool, BitVec(w<=64) and Float64. Thread-safe construction.
// Go integers are always modelled as wrapping machine words (DESIGN §3.1).

import (
	"fmt"
	"math"
	"math/big"
	"strconv"
	"strings"
	"sync"
)

// sort encoding in Term.w: 0 = Bool, 1..64 = BitVec(w), FP = Float64
const FP = -64

type Term struct {
	op   string
	args []*Term
	w    int
	val  uint64 // constants (for fp.const: IEEE bits)
	name string
	p1   int
	p2   int
	id   int
}

var (
	termMu  sync.Mutex
	termTab = map[string]*Term{}
	termSeq int
)

func mask(w int) uint64 {
	if w >= 64 {
		return ^uint64(0)
	}
	return (uint64(1) << uint(w)) - 1
}

func mk(op string, w int, val uint64, name string, p1, p2 int, args ...*Term) *Term {
	var sb strings.Builder
	sb.WriteString(op)
	sb.WriteByte('|')
	sb.WriteString(strconv.Itoa(w))
	sb.WriteByte('|')
	sb.WriteString(strconv.FormatUint(val, 16))
	sb.WriteByte('|')
	sb.WriteString(name)
	sb.WriteByte('|')
	sb.WriteString(strconv.Itoa(p1))
	sb.WriteByte('|')
	sb.WriteString(strconv.Itoa(p2))
	for _, a := range args {
		sb.WriteByte('|')
		sb.WriteString(strconv.Itoa(a.id))
	}
	k := sb.String()
	termMu.Lock()
	defer termMu.Unlock()
	if t, ok := termTab[k]; ok {
		return t
	}
	termSeq++
	t := &Term{op: op, args: args, w: w, val: val, name: name, p1: p1, p2: p2, id: termSeq}
	termTab[k] = t
	return t
}

func BV(w int, v uint64) *Term { return mk("const", w, v&mask(w), "", 0, 0) }
func Bool(b bool) *Term {
	if b {
		return mk("true", 0, 1, "", 0, 0)
	}
	return mk("false", 0, 0, "", 0, 0)
}
func Var(name string, w int) *Term { return mk("var", w, 0, name, 0, 0) }
func FConstT(f float64) *Term     { return mk("fp.const", FP, math.Float64bits(f), "", 0, 0) }

func (t *Term) isConst() bool { return t.op == "const" || t.op == "true" || t.op == "false" || t.op == "fp.const" }
func (t *Term) isTrue() bool  { return t.op == "true" }
func (t *Term) isFalse() bool { return t.op == "false" }
func (t *Term) fval() float64 { return math.Float64frombits(t.val) }

func sx(v uint64, w int) int64 {
	if w >= 64 {
		return int64(v)
	}
	if v&(uint64(1)<<uint(w-1)) != 0 {
		return int64(v | ^mask(w))
	}
	return int64(v)
}

// umax returns an upper bound of the unsigned value of t (syntactic range analysis).
func umax(t *Term) uint64 {
	switch t.op {
	case "const":
		return t.val
	case "bvsub":
		// a - b with b <= a syntactically certain: (x/c)*c style terms are not handled; only constants
		if t.args[1].isConst() && t.args[0].op == "bvadd" && t.args[0].args[1].isConst() && t.args[0].args[1].val >= t.args[1].val {
			return umax(t.args[0])
		}
	case "bvudiv":
		if t.args[1].isConst() && t.args[1].val != 0 {
			return umax(t.args[0]) / t.args[1].val
		}
		return umax(t.args[0])
	case "bvurem":
		if t.args[1].isConst() && t.args[1].val != 0 {
			return t.args[1].val - 1
		}
	case "zext":
		return umax(t.args[0])
	case "bvand":
		a, b := umax(t.args[0]), umax(t.args[1])
		if a < b {
			return a
		}
		return b
	case "bvlshr":
		if t.args[1].isConst() && t.args[1].val < 64 {
			return umax(t.args[0]) >> t.args[1].val
		}
	case "ite":
		a, b := umax(t.args[1]), umax(t.args[2])
		if a > b {
			return a
		}
		return b
	case "bvadd":
		a, b := umax(t.args[0]), umax(t.args[1])
		if a+b >= a && a+b <= mask(t.w) {
			return a + b
		}
	case "bvmul":
		a, b := umax(t.args[0]), umax(t.args[1])
		if a != 0 && b != 0 {
			hi, lo := mul64(a, b)
			if hi == 0 && lo <= mask(t.w) {
				return lo
			}
		} else {
			return 0
		}
	}
	return mask(t.w)
}

func mul64(a, b uint64) (hi, lo uint64) {
	x := new(big.Int).Mul(new(big.Int).SetUint64(a), new(big.Int).SetUint64(b))
	if x.BitLen() > 64 {
		return 1, 0
	}
	return 0, x.Uint64()
}

func nonneg(t *Term) bool { return t.w > 0 && umax(t) < uint64(1)<<uint(t.w-1) }

func foldBin(op string, w int, x, y uint64) (uint64, bool) {
	switch op {
	case "bvadd":
		return x + y, true
	case "bvsub":
		return x - y, true
	case "bvmul":
		return x * y, true
	case "bvand":
		return x & y, true
	case "bvor":
		return x | y, true
	case "bvxor":
		return x ^ y, true
	case "bvudiv":
		if y == 0 {
			return mask(w), true
		}
		return x / y, true
	case "bvurem":
		if y == 0 {
			return x, true
		}
		return x % y, true
	case "bvsdiv":
		if y == 0 {
			if sx(x, w) < 0 {
				return 1, true
			}
			return mask(w), true
		}
		return uint64(new(big.Int).Quo(big.NewInt(sx(x, w)), big.NewInt(sx(y, w))).Int64()), true
	case "bvsrem":
		if y == 0 {
			return x, true
		}
		return uint64(new(big.Int).Rem(big.NewInt(sx(x, w)), big.NewInt(sx(y, w))).Int64()), true
	case "bvshl":
		if y >= uint64(w) {
			return 0, true
		}
		return x << y, true
	case "bvlshr":
		if y >= uint64(w) {
			return 0, true
		}
		return x >> y, true
	case "bvashr":
		if y >= uint64(w) {
			y = uint64(w - 1)
		}
		return uint64(sx(x, w) >> y), true
	}
	return 0, false
}

func BinBV(op string, a, b *Term) *Term {
	w := a.w
	if a.w != b.w {
		panic(fmt.Sprintf("width mismatch %s %d %d", op, a.w, b.w))
	}
	if nonneg(a) && nonneg(b) {
		switch op {
		case "bvsdiv":
			op = "bvudiv"
		case "bvsrem":
			op = "bvurem"
		case "bvashr":
			op = "bvlshr"
		}
	}
	// x - x%c  ==>  (x/c)*c   (an identity of modular arithmetic)
	if op == "bvsub" && b.op == "bvurem" && b.args[0] == a {
		return BinBV("bvmul", BinBV("bvudiv", a, b.args[1]), b.args[1])
	}
	if a.isConst() && b.isConst() {
		if v, ok := foldBin(op, w, a.val, b.val); ok {
			return BV(w, v)
		}
	}
	switch op {
	case "bvadd":
		if a.isConst() && a.val == 0 {
			return b
		}
		if b.isConst() && b.val == 0 {
			return a
		}
		if a.isConst() { // constants to the right
			a, b = b, a
		}
		// (x + c1) + c2
		if b.isConst() && a.op == "bvadd" && a.args[1].isConst() {
			return BinBV("bvadd", a.args[0], BV(w, a.args[1].val+b.val))
		}
		// (x + c1) + y  and  x + (y + c2): keep the constant outermost
		if !b.isConst() {
			ca, cb := uint64(0), uint64(0)
			aa, bb := a, b
			if a.op == "bvadd" && a.args[1].isConst() {
				aa, ca = a.args[0], a.args[1].val
			}
			if b.op == "bvadd" && b.args[1].isConst() {
				bb, cb = b.args[0], b.args[1].val
			}
			if aa != a || bb != b {
				return BinBV("bvadd", BinBV("bvadd", aa, bb), BV(w, ca+cb))
			}
		}
	case "bvsub":
		if b.isConst() && b.val == 0 {
			return a
		}
		if a == b {
			return BV(w, 0)
		}
		// (x + c1) - (x + c2) = c1 - c2 ; (x + c) - x = c ; x - (x + c) = -c   (identities of modular arithmetic)
		{
			ab, ac := a, uint64(0)
			if a.op == "bvadd" && a.args[1].isConst() {
				ab, ac = a.args[0], a.args[1].val
			}
			bb, bc := b, uint64(0)
			if b.op == "bvadd" && b.args[1].isConst() {
				bb, bc = b.args[0], b.args[1].val
			}
			if ab == bb && (ab != a || bb != b) {
				return BV(w, ac-bc)
			}
		}
		if b.isConst() {
			return BinBV("bvadd", a, BV(w, -b.val))
		}
		// (c1 + sum A) - (c2 + sum B) with B a sub-multiset of A: the common atoms cancel (modular identity)
		{
			ca, as := linDecomp(a)
			cb, bs := linDecomp(b)
			if len(bs) > 0 && len(bs) <= len(as) && (len(as) > 1 || len(bs) > 1) {
				rest := append([]*Term(nil), as...)
				all := true
				for _, x := range bs {
					found := false
					for i, y := range rest {
						if y == x {
							rest = append(rest[:i], rest[i+1:]...)
							found = true
							break
						}
					}
					if !found {
						all = false
						break
					}
				}
				if all {
					acc := BV(w, 0)
					for _, y := range rest {
						acc = BinBV("bvadd", acc, y)
					}
					return BinBV("bvadd", acc, BV(w, (ca-cb)&mask(w)))
				}
			}
		}
	case "bvmul":
		if b.isConst() && b.val == 1 {
			return a
		}
		if a.isConst() && a.val == 1 {
			return b
		}
		if (a.isConst() && a.val == 0) || (b.isConst() && b.val == 0) {
			return BV(w, 0)
		}
		if a.isConst() {
			a, b = b, a
		}
	case "bvudiv":
		if b.isConst() && b.val == 1 {
			return a
		}
		// (c + r) / d with r small: no carry into the quotient
		if b.isConst() && b.val > 1 {
			if c, r, ok := smallOffset(a, b.val); ok && c != 0 {
				_ = r
				return BV(w, c/b.val)
			}
		}
	case "bvurem":
		if b.isConst() && b.val == 1 {
			return BV(w, 0)
		}
		if b.isConst() && b.val > 1 {
			if c, r, ok := smallOffset(a, b.val); ok && c >= b.val {
				return BinBV("bvadd", r, BV(w, c%b.val))
			}
		}
	case "bvand":
		if a == b {
			return a
		}
		if (a.isConst() && a.val == 0) || (b.isConst() && b.val == 0) {
			return BV(w, 0)
		}
		if b.isConst() && b.val == mask(w) {
			return a
		}
		if a.isConst() && a.val == mask(w) {
			return b
		}
	case "bvor", "bvxor":
		if a.isConst() && a.val == 0 {
			return b
		}
		if b.isConst() && b.val == 0 {
			return a
		}
	case "bvshl", "bvlshr", "bvashr":
		if b.isConst() && b.val == 0 {
			return a
		}
	}
	return mk(op, w, 0, "", 0, 0, a, b)
}

func Cmp(op string, a, b *Term) *Term {
	if a.w != b.w {
		panic(fmt.Sprintf("cmp width mismatch %s %d %d", op, a.w, b.w))
	}
	if a.w == FP {
		panic("Cmp on float terms")
	}
	if a.w == 0 {
		if op != "=" {
			panic("ordered compare of bools")
		}
		return BoolEq(a, b)
	}
	if nonneg(a) && nonneg(b) {
		switch op {
		case "bvslt":
			op = "bvult"
		case "bvsle":
			op = "bvule"
		}
	}
	if a.isConst() && b.isConst() {
		x, y, w := a.val, b.val, a.w
		switch op {
		case "=":
			return Bool(x == y)
		case "bvult":
			return Bool(x < y)
		case "bvule":
			return Bool(x <= y)
		case "bvslt":
			return Bool(sx(x, w) < sx(y, w))
		case "bvsle":
			return Bool(sx(x, w) <= sx(y, w))
		}
	}
	if a == b {
		switch op {
		case "=", "bvule", "bvsle":
			return Bool(true)
		default:
			return Bool(false)
		}
	}
	// range-based folding
	switch op {
	case "bvult":
		if b.isConst() && umax(a) < b.val {
			return Bool(true)
		}
		if b.isConst() && b.val == 0 {
			return Bool(false)
		}
	case "bvule":
		if b.isConst() && umax(a) <= b.val {
			return Bool(true)
		}
		if a.isConst() && a.val == 0 {
			return Bool(true)
		}
	case "=":
		if b.isConst() && umax(a) < b.val {
			return Bool(false)
		}
		if a.isConst() && umax(b) < a.val {
			return Bool(false)
		}
		// ite(c, k1, k2) = k  with constants
		if b.isConst() && a.op == "ite" && a.args[1].isConst() && a.args[2].isConst() {
			t1, t2 := a.args[1].val == b.val, a.args[2].val == b.val
			switch {
			case t1 && t2:
				return Bool(true)
			case t1:
				return a.args[0]
			case t2:
				return Not(a.args[0])
			default:
				return Bool(false)
			}
		}
		if a.id > b.id {
			a, b = b, a
		}
	}
	return mk(op, 0, 0, "", 0, 0, a, b)
}

func Not(a *Term) *Term {
	if a.isTrue() {
		return Bool(false)
	}
	if a.isFalse() {
		return Bool(true)
	}
	if a.op == "not" {
		return a.args[0]
	}
	return mk("not", 0, 0, "", 0, 0, a)
}
func And(a, b *Term) *Term {
	if a.isFalse() || b.isFalse() {
		return Bool(false)
	}
	if a.isTrue() {
		return b
	}
	if b.isTrue() {
		return a
	}
	if a == b {
		return a
	}
	if a == Not(b) {
		return Bool(false)
	}
	return mk("and", 0, 0, "", 0, 0, a, b)
}
func Or(a, b *Term) *Term { return Not(And(Not(a), Not(b))) }
func Ite(c, a, b *Term) *Term {
	if c.isTrue() {
		return a
	}
	if c.isFalse() {
		return b
	}
	if a == b {
		return a
	}
	if a.w == 0 {
		return Or(And(c, a), And(Not(c), b))
	}
	return mk("ite", a.w, 0, "", 0, 0, c, a, b)
}
func BoolEq(a, b *Term) *Term {
	if a.isConst() && b.isConst() {
		return Bool(a.val == b.val)
	}
	if a == b {
		return Bool(true)
	}
	if b.isTrue() {
		return a
	}
	if a.isTrue() {
		return b
	}
	if b.isFalse() {
		return Not(a)
	}
	if a.isFalse() {
		return Not(b)
	}
	if a.id > b.id {
		a, b = b, a
	}
	return mk("=", 0, 0, "", 0, 0, a, b)
}

func ZExt(a *Term, to int) *Term {
	if to == a.w {
		return a
	}
	if a.isConst() {
		return BV(to, a.val)
	}
	return mk("zext", to, 0, "", to-a.w, 0, a)
}
func SExt(a *Term, to int) *Term {
	if to == a.w {
		return a
	}
	if nonneg(a) {
		return ZExt(a, to)
	}
	if a.isConst() {
		return BV(to, uint64(sx(a.val, a.w)))
	}
	return mk("sext", to, 0, "", to-a.w, 0, a)
}
func Trunc(a *Term, to int) *Term {
	if to == a.w {
		return a
	}
	if a.isConst() {
		return BV(to, a.val)
	}
	if (a.op == "zext" || a.op == "sext") && a.args[0].w == to {
		return a.args[0]
	}
	if (a.op == "zext") && a.args[0].w < to {
		return ZExt(a.args[0], to)
	}
	return mk("extract", to, 0, "", to-1, 0, a)
}
func BVNot(a *Term) *Term {
	if a.isConst() {
		return BV(a.w, ^a.val)
	}
	return mk("bvnot", a.w, 0, "", 0, 0, a)
}
func BVNeg(a *Term) *Term { return BinBV("bvsub", BV(a.w, 0), a) }

// ---------------- floating point terms (sort Float64, rounding RNE unless stated) ----------------

func fpFold1(op string, x float64) (float64, bool) {
	switch op {
	case "fp.neg":
		return -x, true
	case "fp.abs":
		return math.Abs(x), true
	case "fp.ceil":
		return math.Ceil(x), true
	case "fp.floor":
		return math.Floor(x), true
	case "fp.trunc":
		return math.Trunc(x), true
	case "fp.rne":
		return math.RoundToEven(x), true
	case "fp.rna":
		return math.Round(x), true
	case "fp.sqrt":
		return math.Sqrt(x), true
	}
	return 0, false
}

func FUn(op string, a *Term) *Term {
	if a.w != FP {
		panic("FUn on non-float")
	}
	if a.isConst() {
		if v, ok := fpFold1(op, a.fval()); ok {
			return FConstT(v)
		}
	}
	return mk(op, FP, 0, "", 0, 0, a)
}

func FBin(op string, a, b *Term) *Term {
	if a.w != FP || b.w != FP {
		panic("FBin on non-float")
	}
	if a.isConst() && b.isConst() {
		x, y := a.fval(), b.fval()
		switch op {
		case "fp.add":
			return FConstT(x + y)
		case "fp.sub":
			return FConstT(x - y)
		case "fp.mul":
			return FConstT(x * y)
		case "fp.div":
			return FConstT(x / y)
		}
	}
	// exact identities
	if b.isConst() && b.fval() == 1.0 && (op == "fp.mul" || op == "fp.div") {
		return a
	}
	if a.isConst() && a.fval() == 1.0 && op == "fp.mul" {
		return b
	}
	return mk(op, FP, 0, "", 0, 0, a, b)
}

// FCmpT: op in fp.lt fp.leq fp.eq (IEEE: false on NaN)
func FCmpT(op string, a, b *Term) *Term {
	if a.isConst() && b.isConst() {
		x, y := a.fval(), b.fval()
		switch op {
		case "fp.lt":
			return Bool(x < y)
		case "fp.leq":
			return Bool(x <= y)
		case "fp.eq":
			return Bool(x == y)
		}
	}
	return mk(op, 0, 0, "", 0, 0, a, b)
}
func FIsNaN(a *Term) *Term {
	if a.isConst() {
		return Bool(math.IsNaN(a.fval()))
	}
	if a.op == "fp.from_s" || a.op == "fp.from_u" {
		return Bool(false)
	}
	return mk("fp.isNaN", 0, 0, "", 0, 0, a)
}
func FIsInf(a *Term) *Term {
	if a.isConst() {
		return Bool(math.IsInf(a.fval(), 0))
	}
	if a.op == "fp.from_s" || a.op == "fp.from_u" {
		return Bool(false)
	}
	return mk("fp.isInf", 0, 0, "", 0, 0, a)
}

// FFromBV converts a 64-bit bit-vector (signed or unsigned view) to Float64, RNE.
func FFromBV(a *Term, signed bool) *Term {
	if a.w != 64 {
		if signed {
			a = SExt(a, 64)
		} else {
			a = ZExt(a, 64)
		}
	}
	if a.isConst() {
		if signed {
			return FConstT(float64(int64(a.val)))
		}
		return FConstT(float64(a.val))
	}
	if signed && !nonneg(a) {
		return mk("fp.from_s", FP, 0, "", 0, 0, a)
	}
	return mk("fp.from_u", FP, 0, "", 0, 0, a)
}

// FToBV converts Float64 to a w-bit integer, rounding toward zero (Go semantics for in-range
// values; out-of-range/NaN is implementation-defined in Go and unspecified in SMT-LIB).
func FToBV(a *Term, w int, signed bool) *Term {
	if a.isConst() {
		f := a.fval()
		if signed {
			return BV(w, uint64(int64(f)))
		}
		return BV(w, uint64(f))
	}
	if signed {
		return mk("fp.to_s", w, 0, "", 0, 0, a)
	}
	return mk("fp.to_u", w, 0, "", 0, 0, a)
}

// ---------------- evaluation under a model ----------------

type Model map[string]uint64

type evalCtx struct {
	m    Model
	memo map[int]uint64
}

func evalTerm(t *Term, m Model) uint64 {
	c := &evalCtx{m: m, memo: map[int]uint64{}}
	return c.ev(t)
}

func b2u(b bool) uint64 {
	if b {
		return 1
	}
	return 0
}

func (c *evalCtx) ev(t *Term) uint64 {
	switch t.op {
	case "const", "true", "false", "fp.const":
		return t.val
	case "var":
		return c.m[t.name] // a variable absent from the model is consistently 0
	}
	if v, ok := c.memo[t.id]; ok {
		return v
	}
	var r uint64
	a := make([]uint64, len(t.args))
	if t.op == "ite" {
		if c.ev(t.args[0]) != 0 {
			r = c.ev(t.args[1])
		} else {
			r = c.ev(t.args[2])
		}
		c.memo[t.id] = r
		return r
	}
	for i, x := range t.args {
		a[i] = c.ev(x)
	}
	aw := 0
	if len(t.args) > 0 {
		aw = t.args[0].w
	}
	f := math.Float64frombits
	switch t.op {
	case "not":
		r = 1 - a[0]
	case "and":
		r = a[0] & a[1]
	case "=":
		r = b2u(a[0] == a[1])
	case "bvult":
		r = b2u(a[0] < a[1])
	case "bvule":
		r = b2u(a[0] <= a[1])
	case "bvslt":
		r = b2u(sx(a[0], aw) < sx(a[1], aw))
	case "bvsle":
		r = b2u(sx(a[0], aw) <= sx(a[1], aw))
	case "zext":
		r = a[0]
	case "sext":
		r = uint64(sx(a[0], aw)) & mask(t.w)
	case "extract":
		r = (a[0] >> uint(t.p2)) & mask(t.w)
	case "bvnot":
		r = ^a[0] & mask(t.w)
	case "fp.add":
		r = math.Float64bits(f(a[0]) + f(a[1]))
	case "fp.sub":
		r = math.Float64bits(f(a[0]) - f(a[1]))
	case "fp.mul":
		r = math.Float64bits(f(a[0]) * f(a[1]))
	case "fp.div":
		r = math.Float64bits(f(a[0]) / f(a[1]))
	case "fp.lt":
		r = b2u(f(a[0]) < f(a[1]))
	case "fp.leq":
		r = b2u(f(a[0]) <= f(a[1]))
	case "fp.eq":
		r = b2u(f(a[0]) == f(a[1]))
	case "fp.isNaN":
		r = b2u(math.IsNaN(f(a[0])))
	case "fp.isInf":
		r = b2u(math.IsInf(f(a[0]), 0))
	case "fp.from_s":
		r = math.Float64bits(float64(int64(a[0])))
	case "fp.from_u":
		r = math.Float64bits(float64(a[0]))
	case "fp.to_s":
		r = uint64(int64(f(a[0]))) & mask(t.w)
	case "fp.to_u":
		r = uint64(f(a[0])) & mask(t.w)
	default:
		if v, ok := fpFold1(t.op, f(a[0])); ok && t.w == FP {
			r = math.Float64bits(v)
		} else if v, ok := foldBin(t.op, t.w, a[0], a[1]); ok {
			r = v & mask(t.w)
		} else {
			panic("eval: unknown op " + t.op)
		}
	}
	c.memo[t.id] = r
	return r
}

// collectVars adds all variables below t to out.
func collectVars(t *Term, seen map[int]bool, out map[string]int) {
	if seen[t.id] {
		return
	}
	seen[t.id] = true
	if t.op == "var" {
		out[t.name] = t.w
		return
	}
	for _, a := range t.args {
		collectVars(a, seen, out)
	}
}

func hasFP(t *Term, seen map[int]bool) bool {
	if seen[t.id] {
		return false
	}
	seen[t.id] = true
	if t.w == FP || strings.HasPrefix(t.op, "fp.") {
		return true
	}
	for _, a := range t.args {
		if hasFP(a, seen) {
			return true
		}
	}
	return false
}

// ---------------- variable sets (constraint-independence slicing) ----------------

var varsMemo sync.Map // term id -> []int (sorted ids of var terms)

func termVars(t *Term) []int {
	if t.isConst() {
		return nil
	}
	if v, ok := varsMemo.Load(t.id); ok {
		return v.([]int)
	}
	var out []int
	if t.op == "var" {
		out = []int{t.id}
	} else {
		for _, a := range t.args {
			out = mergeSorted(out, termVars(a))
		}
	}
	varsMemo.Store(t.id, out)
	return out
}

func mergeSorted(a, b []int) []int {
	if len(a) == 0 {
		return b
	}
	if len(b) == 0 {
		return a
	}
	out := make([]int, 0, len(a)+len(b))
	i, j := 0, 0
	for i < len(a) && j < len(b) {
		switch {
		case a[i] < b[j]:
			out = append(out, a[i])
			i++
		case a[i] > b[j]:
			out = append(out, b[j])
			j++
		default:
			out = append(out, a[i])
			i++
			j++
		}
	}
	out = append(out, a[i:]...)
	return append(out, b[j:]...)
}

func intersects(a, b []int) bool {
	i, j := 0, 0
	for i < len(a) && j < len(b) {
		switch {
		case a[i] < b[j]:
			i++
		case a[i] > b[j]:
			j++
		default:
			return true
		}
	}
	return false
}

// sliceFor returns the conjuncts of pc that are (transitively) connected to c through shared variables.
func sliceFor(pc []*Term, c *Term) []*Term {
	vars := termVars(c)
	used := make([]bool, len(pc))
	var out []*Term
	for changed := true; changed; {
		changed = false
		for i, p := range pc {
			if used[i] {
				continue
			}
			pv := termVars(p)
			if len(pv) == 0 || intersects(pv, vars) {
				used[i] = true
				out = append(out, p)
				vars = mergeSorted(vars, pv)
				changed = true
			}
		}
	}
	return out
}

// linDecomp flattens nested bvadd into a constant and a list of non-constant atoms.
func linDecomp(t *Term) (uint64, []*Term) {
	if t.isConst() {
		return t.val, nil
	}
	if t.op == "bvadd" {
		c1, a1 := linDecomp(t.args[0])
		c2, a2 := linDecomp(t.args[1])
		return (c1 + c2) & mask(t.w), append(a1, a2...)
	}
	return 0, []*Term{t}
}

// smallOffset: t = c + r (no wrap-around) where r's maximum plus c mod d stays below d, so that
// t/d == c/d and t%d == c%d + r.
func smallOffset(t *Term, d uint64) (uint64, *Term, bool) {
	if t.op != "bvadd" {
		return 0, nil, false
	}
	c, atoms := linDecomp(t)
	if len(atoms) == 0 {
		return 0, nil, false
	}
	var sum uint64
	for _, a := range atoms {
		u := umax(a)
		if sum+u < sum {
			return 0, nil, false
		}
		sum += u
	}
	if c+sum < c || c+sum > mask(t.w) || sum+c%d < sum || sum+c%d >= d {
		return 0, nil, false
	}
	r := BV(t.w, 0)
	for _, a := range atoms {
		r = BinBV("bvadd", r, a)
	}
	return c, r, true
}
