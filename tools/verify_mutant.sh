#!/bin/bash
# usage: verify_mutant.sh <name> <out-dir with patch.diff demo_test.go> <property>
# Confirms in a scratch worktree of /repo's HEAD: patch applies, builds, pinned suite still passes,
# demo fails with the patch and passes without. Writes /verif/seeded/<name>/{patch.diff,demo_test.go,meta.json}.
name=$1; src=$2; prop=$3
export GOFLAGS=-mod=mod GOPROXY=off GOSUMDB=off
wt=/tmp/wt/v_$name
git -C /repo worktree remove --force $wt 2>/dev/null
git -C /repo worktree add -q --detach $wt HEAD || exit 2
cd $wt
res_apply=ok
git apply --3way $src/patch.diff 2>/tmp/wt/v_$name.applyerr || res_apply=fail
git reset -q
place=$(head -1 $src/demo_test.go | sed -n 's|^// place in: *||p' | tr -d ' \r')
pat="^($(grep -o '^func Test[A-Za-z0-9_]*' $src/demo_test.go | sed 's/func //' | paste -sd'|'))\$"
build=skip; suite=skip; demo_with=skip; demo_without=skip; notpassing=""
if [ $res_apply = ok ]; then
  git diff > /tmp/wt/v_$name.rebased.diff
  if go build ./... 2>/tmp/wt/v_$name.build; then build=ok; else build=fail; fi
  # pinned suite (all modules) with the patch
  (for m in $(cat /w/out/gomods.txt); do MF=$(cd $wt/$m && . /w/out/goenv.sh && gomodflag); (cd $wt/$m && go test $MF -json -vet=off -count=1 -timeout 25m ./... ); done) > /tmp/wt/v_$name.suite.json 2>/dev/null
  notpassing=$(python3 - <<P
import json
base=set(json.load(open('/root/.vp/BASELINE.json'))['stable_pass'])
res={}
for l in open('/tmp/wt/v_$name.suite.json'):
    try: e=json.loads(l)
    except: continue
    if e.get('Action') in('pass','fail') and e.get('Test'): res[e['Package']+'::'+e['Test']]=e['Action']
print(len([t for t in base if res.get(t)!='pass']))
P
)
  [ "$notpassing" = 0 ] && suite=ok || suite="fail($notpassing)"
  mkdir -p $wt/$place; cp $src/demo_test.go $wt/$place/zz_demo_seeded_test.go
  if (cd $wt/$place && go test -vet=off -count=1 -run "$pat" . >/tmp/wt/v_$name.demo_with 2>&1); then demo_with=pass; else demo_with=fail; fi
  git apply -R /tmp/wt/v_$name.rebased.diff
  if (cd $wt/$place && go test -vet=off -count=1 -run "$pat" . >/tmp/wt/v_$name.demo_without 2>&1); then demo_without=pass; else demo_without=fail; fi
fi
mkdir -p /verif/seeded/$name
cp $src/demo_test.go /verif/seeded/$name/
[ -f /tmp/wt/v_$name.rebased.diff ] && cp /tmp/wt/v_$name.rebased.diff /verif/seeded/$name/patch.diff || cp $src/patch.diff /verif/seeded/$name/patch.diff
[ -f $src/notes.md ] && cp $src/notes.md /verif/seeded/$name/notes.md
python3 - <<P
import json,subprocess
json.dump({"property":"$prop","name":"$name","base_commit":subprocess.check_output(['git','-C','/repo','rev-parse','HEAD']).decode().strip(),
 "confirmed":{"patch_applies":"$res_apply","builds":"$build","pinned_suite_with_patch":"$suite","demo_with_patch":"$demo_with","demo_without_patch":"$demo_without"},
 "demo_location":"$place","ran":"tools/verify_mutant.sh $name (scratch worktree of /repo HEAD, removed afterwards)"},open('/verif/seeded/$name/meta.json','w'),indent=1)
P
cd / && git -C /repo worktree remove --force $wt
cat /verif/seeded/$name/meta.json | tr -d '\n'; echo
