#!/bin/bash
# usage: try_mutant_wt.sh <patch.diff> <tier> <ID>...  — like try_mutant.sh but against a scratch worktree
# (REPO_ROOT override), for use while /repo must stay untouched (e.g. a long run is reading it).
p=$1; tier=$2; shift 2
wt=/tmp/wt/t_$$
git -C /repo worktree add -q --detach $wt HEAD || exit 2
(cd $wt && (git apply --3way "$p" 2>/dev/null || git apply "$p") && git reset -q) || { echo "PATCH DOES NOT APPLY"; git -C /repo worktree remove --force $wt; exit 3; }
for id in "$@"; do
  (cd /verif && REPO_ROOT=$wt timeout 3600 bin/symgo check $id --tier $tier ${ONLY:+--only $ONLY} 2>&1 | tail -${TAILN:-8}; echo "exit=${PIPESTATUS[0]}")
done
git -C /repo worktree remove --force $wt
(cd /verif && git checkout -- evidence 2>/dev/null; git -C /verif checkout -- replays 2>/dev/null)
