#!/usr/bin/env python3
# Regenerates /verif/MANIFEST.json from tools/manifest_table.json + the check files present.
import json, os, subprocess
root = os.path.dirname(os.path.dirname(os.path.abspath(__file__)))
ids = [json.loads(l)['id'] for l in open(os.path.join(root, 'properties.jsonl'))]
table = json.load(open(os.path.join(root, 'tools', 'manifest_table.json')))
fix_commits = [l.split()[0] for l in subprocess.check_output(['git', '-C', '/repo', 'log', '--format=%h %s', '8cfe1ed..HEAD']).decode().splitlines() if ' fix:' in ' ' + l]
checks, na = [], []
for i in ids:
    t = table.get(i, {})
    if os.path.exists(os.path.join(root, 'checks', i + '.json')) and t.get('claim', True):
        checks.append({
            "property_id": i,
            "quick_cmd": "bin/symgo check %s --tier quick" % i,
            "thorough_cmd": "bin/symgo check %s --tier thorough" % i,
            "evidence_file": "evidence/%s.json" % i,
            "replay_cmd_template": "bin/symgo replay {path}",
            "engine": "symgo",
            "level_claimed": {"category": "model_checking", "text": t.get('level', ''), "design_ref": t.get('design_ref', 'DESIGN.md section 5 ' + i)},
            "level_note": t.get('note', ''),
            "technique": t.get('technique', 'bounded symbolic execution of go/ssa + SMT (cvc5/z3)'),
        })
    else:
        na.append({"property_id": i, "reason": t.get('na_reason', 'check not built yet (build phase in progress)')})
m = {
 "version": 1,
 "setup_cmd": "cd engine && GOFLAGS=-mod=mod GOPROXY=off GOSUMDB=off GOTOOLCHAIN=local go build -o ../bin/symgo .",
 "hooks": {"guard": "verif", "enable": "no hooks in /repo: harnesses, the verifrt runtime and replay drivers are injected through go/packages and `go test -overlay` overlays generated at run time from /verif/harness", "baseline_off_cmd": "for m in $(cat /w/out/gomods.txt); do MF=$(cd /repo/$m && . /w/out/goenv.sh && gomodflag); (cd /repo/$m && go test $MF -json -vet=off -count=1 -timeout 25m ./...); done", "source_commits": fix_commits, "add_only": True},
 "engines": [{"name": "symgo", "path": "engine", "serves_properties": [c['property_id'] for c in checks], "kind_free_text": "bounded symbolic execution of the real code (go/ssa of /repo's working tree) with SMT back ends (cvc5 1.0, z3 5.1/4.8): inputs, times, pre-states and schedules symbolic; each assertion is the query path-condition AND NOT property; counterexamples replayed natively through go test -overlay"}],
 "checks": checks,
 "notes": "See DESIGN.md. Exit codes: 0 held on everything explored; 1 + VIOLATION line = counterexample reproduced on the real build; 2 = ENGINE-ERROR (inconclusive run: unsupported construct, vacuity, undischarged obligation, unconfirmed model), never a verdict.",
 "not_applicable": na,
}
json.dump(m, open(os.path.join(root, 'MANIFEST.json'), 'w'), indent=1)
print("claimed:", [c['property_id'] for c in checks])
