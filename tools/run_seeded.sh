#!/bin/bash
# Runs every seeded change against the quick (or given) tier of the check(s) that should catch it
# (meta.json "check_ids", default: the property it breaks).
# Default: scratch worktree + REPO_ROOT (leaves /repo untouched). With INPLACE=1: git -C /repo apply; check; git -C /repo checkout -- .
tier=${1:-quick}; shift
only="$@"
for d in /verif/seeded/*/; do
  n=$(basename $d); [ -f $d/meta.json ] || continue
  [ -n "$only" ] && ! echo " $only " | grep -q " $n " && continue
  ids=$(python3 -c "import json;m=json.load(open('$d/meta.json'));print(' '.join(m.get('check_ids',[m['property']])))")
  if [ -n "$INPLACE" ]; then
    root=/repo; cd /repo; git diff --quiet || { echo "/repo dirty"; exit 2; }
  else
    root=/tmp/wt/s_$n; git -C /repo worktree remove --force $root 2>/dev/null; git -C /repo worktree add -q --detach $root HEAD || exit 2; cd $root
  fi
  if ! git apply --3way $d/patch.diff >/dev/null 2>&1; then echo "$n PATCH-DOES-NOT-APPLY"; else
    git reset -q
    for prop in $ids; do
      out=$(cd /verif && REPO_ROOT=$root timeout 3000 bin/symgo check $prop --tier $tier 2>&1); code=$?
      nviol=$(echo "$out" | grep -c "^VIOLATION")
      echo "$n $prop exit=$code violations=$nviol $(echo "$out" | grep -m1 'assertion=' | sed 's/.*assertion=//' | cut -c1-120)"
    done
  fi
  if [ -n "$INPLACE" ]; then cd /repo && git checkout -- . && git reset -q; else cd /; git -C /repo worktree remove --force $root; fi
done
cd /verif && git checkout -- evidence replays 2>/dev/null
