#!/bin/bash
# Runs every seeded change against the quick (or given) tier of the check of the property it breaks.
tier=${1:-quick}
for d in /verif/seeded/*/; do
  n=$(basename $d); [ -f $d/meta.json ] || continue
  prop=$(python3 -c "import json;print(json.load(open('$d/meta.json'))['property'])")
  cd /repo; git diff --quiet || { echo "/repo dirty"; exit 2; }
  if ! git apply --3way $d/patch.diff >/dev/null 2>&1; then echo "$n $prop PATCH-DOES-NOT-APPLY"; git checkout -- . ; git reset -q; continue; fi
  git reset -q
  out=$(cd /verif && timeout 3000 bin/symgo check $prop --tier $tier 2>&1); code=$?
  nviol=$(echo "$out" | grep -c "^VIOLATION")
  echo "$n $prop exit=$code violations=$nviol $(echo "$out" | grep -m1 'assertion=' | sed 's/.*assertion=//' | cut -c1-120)"
  cd /repo && git checkout -- . 
done
cd /verif && git checkout -- evidence replays 2>/dev/null
