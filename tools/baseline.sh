#!/bin/bash
# Runs the repository's pinned baseline (hooks/guards off) and compares with BASELINE.json.
cd /repo && (for m in $(cat /w/out/gomods.txt); do MF=$(cd /repo/$m && . /w/out/goenv.sh && gomodflag); (cd /repo/$m && go test $MF -json -vet=off -count=1 -timeout 25m ./... ); done) > /tmp/baseline_run.json 2>/tmp/baseline_run.err
python3 - <<'P'
import json
base=set(json.load(open('/root/.vp/BASELINE.json'))['stable_pass'])
res={}
for l in open('/tmp/baseline_run.json'):
    try: e=json.loads(l)
    except: continue
    if e.get('Action') in('pass','fail') and e.get('Test'):
        res[e['Package']+'::'+e['Test']]=e['Action']
missing=sorted(t for t in base if res.get(t)!='pass')
print('baseline tests:',len(base),'not passing now:',len(missing)); print(missing[:20])
P
rm -f /tmp/baseline_run.json
