#!/bin/bash
# usage: process_mutant.sh <name> <Cxx> [more check ids]  — verify a sub-agent's change in a scratch worktree, then run the quick checks against it (no evidence written)
n=$1; shift; prop=$1
git -C /repo worktree remove --force /tmp/wt/$n 2>/dev/null
v=$(/verif/tools/verify_mutant.sh $n /tmp/wt/out/$n $prop 2>&1 | tail -1)
echo "$n verify: $(echo "$v" | grep -o '"confirmed": {[^}]*}')"
for id in "$@"; do
  out=$(ONLY=- TAILN=400 /verif/tools/try_mutant_wt.sh /verif/seeded/$n/patch.diff quick $id 2>&1)
  echo "$n $id: violations=$(echo "$out" | grep -c '^VIOLATION') $(echo "$out" | grep -m1 -o 'assertion="[^"]*"' | cut -c1-140) $(echo "$out" | grep -E 'ENGINE-ERROR|PATCH DOES NOT' | head -2 | cut -c1-200)"
done
