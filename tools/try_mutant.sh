#!/bin/bash
# usage: try_mutant.sh <patch.diff> <tier> <ID>...   — applies the patch to /repo, runs the checks, reverts.
p=$1; tier=$2; shift 2
cd /repo || exit 2
git diff --quiet || { echo "/repo dirty"; exit 2; }
git apply --3way "$p" 2>/dev/null || git apply "$p" || { echo "PATCH DOES NOT APPLY"; git checkout -- . ; exit 3; }
git reset -q
for id in "$@"; do
  (cd /verif && timeout 3600 bin/symgo check $id --tier $tier 2>&1 | tail -${TAILN:-8}; echo "exit=${PIPESTATUS[0]}")
done
cd /repo && git checkout -- . && git status --short | head
(cd /verif && git checkout -- evidence 2>/dev/null; git -C /verif checkout -- replays 2>/dev/null)
