//go:build !verifreplay

// Package verifrt is the harness runtime of the solver-based checks (see /verif/DESIGN.md §4).
// This file holds the declarations the symbolic interpreter intercepts; the bodies are never
// executed by it. The native bodies used for replaying counterexamples are in rt_replay.go.
package verifrt

// ---- symbolic inputs ----
func U8(name string) uint8   { return 0 }
func U16(name string) uint16 { return 0 }
func U32(name string) uint32 { return 0 }
func I32(name string) int32  { return 0 }
func U64(name string) uint64 { return 0 }
func I64(name string) int64  { return 0 }
func Bool(name string) bool  { return false }

// U64n / I64n / U32n: an arbitrary value in [0, 2^bits) (the range is part of the variable's sort,
// so no Assume is needed and the encoding knows it is non-negative).
func U64n(name string, bits int) uint64 { return 0 }
func I64n(name string, bits int) int64  { return 0 }
func U32n(name string, bits int) uint32 { return 0 }
func Choice(n int) int                  { return 0 }
func F64(name string) float64           { return 0 }
func F64Cmp(name string) float64        { return 0 }

// Param returns a concrete parameter of the job (bounds, grid coordinates).
func Param(name string) int { return 0 }

// Known reports whether the finding id is listed as open in /verif/known_findings.json.
func Known(id string) bool { return false }

// ---- obligations ----
func Assume(ok bool)             {}
func Assert(ok bool, msg string) {}

// AssertExcept asserts ok, except inside the region of the listed open finding id.
func AssertExcept(ok bool, msg string, id string, region bool) {}
func Reach(label string)                                       {}
func Observe(name string, v int64)                             {}
func IsFinite(f float64) bool                                  { return true }

// ---- clock ----
func SetClockMs(t uint64) {}
func SetClockNs(t uint64) {}
func LastSleepNs() int64  { return 0 }

// FrozenClockNs returns the value set by the last SetClockNs/SetClockMs.
func FrozenClockNs() uint64 { return 0 }
func SleepCount() int       { return 0 }

// ---- threads ----
func Spawn(f func())    { f() }
func Join()             {}
func Yield()            {}
func LastClock() uint64 { return 0 }
func Tid() int          { return 0 }

// ---- state access / ghost state ----
func Poke(obj interface{}, field string, v interface{})   {}
func Peek(obj interface{}, field string) int64            { return 0 }
func SameObject(a, b interface{}) bool                    { return false }
func Guard(v interface{}, mu interface{}, what string)    {}
func GuardObj(v interface{}, mu interface{}, what string) {}

// Freeze declares that the object x refers to (a slice backing array) is published to lock-free
// readers and must not be written any more.
func Freeze(x interface{}, what string) {}

// LockFree reports whether nobody holds the mutex (sync.Mutex or sync.RWMutex) in any mode.
func LockFree(mu interface{}) bool { return true }
func SetFlag(key string, v int)    {}
func GetFlag(key string) int       { return 0 }
func Fire(i int) bool              { return false }
func Timers() int                  { return 0 }

// ---- primitives used by the Go models in models.go ----
func GhostGet(p interface{}, key string) int    { return 0 }
func GhostSet(p interface{}, key string, v int) {}
func PoolPush(p interface{}, x interface{})     {}
func PoolPop(p interface{}) interface{}         { return nil }
func PoolTake(p interface{}, i int) interface{} { return nil }
func PoolLen(p interface{}) int                 { return 0 }
func SliceLen(x interface{}) int                { return 0 }
func SliceSwap(x interface{}, i, j int)         {}

// ---- modelled index files (C17; engine-only) ----

// SetFiles gives the list of metric data files the searcher's directory listing returns.
func SetFiles(names []string) {}

// FileSet defines a ghost file as a sequence of big-endian 64-bit words, cut at cutBytes bytes.
func FileSet(name string, words []uint64, cutBytes uint64) {}

// HookCall (engine-only): when the code under test calls the framework function with this full name
// (which the interpreter would otherwise havoc), run f instead: "the wrapped handler is invoked here".
func HookCall(fullName string, f func()) {}

// RedirectCall (engine-only): calls of the function with this full name run f (same signature) instead.
func RedirectCall(fullName string, f interface{}) {}

// PutBE64 stores v big-endian into b[0:8]; BE64 reads it back (bytes of a symbolic word stay linked to it).
func PutBE64(b []byte, v uint64) {}
func BE64(b []byte) uint64       { return 0 }

// GuardAlt: like Guard/GuardObj, but every writer also holds the plain mutex alt, so reads under alt alone are race-free.
func GuardAlt(x interface{}, mu interface{}, alt interface{}, what string) {}

// Settle (engine-only, with flag "go-threads"): lets the goroutines started by the code under test run
// until each of them is blocked on a channel operation or has finished.
func Settle() {}

// GuardField: the object the field obj.<field> refers to is guarded by the mutex in muOwner.<muField> (unexported fields allowed).
func GuardField(obj interface{}, field string, muOwner interface{}, muField string, what string) {}

// WakeAll (models only): threads that yielded while waiting for this goroutine may run again.
func WakeAll() {}
