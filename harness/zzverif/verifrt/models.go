package verifrt

import "sync"

// Go-source models of library functions that call back into program closures (DESIGN A.2).
// The interpreter redirects the real functions here; natively the real ones run.

func ModelOnceDo(o *sync.Once, f func()) {
	if GhostGet(o, "done") == 0 {
		defer GhostSet(o, "done", 1)
		f()
	}
}

func ModelPoolGet(p *sync.Pool) interface{} {
	if n := PoolLen(p); n > 0 {
		if GetFlag("pool-any") != 0 {
			if i := Choice(n + 1); i < n {
				return PoolTake(p, i)
			}
		} else {
			return PoolPop(p) // LIFO: what one goroutine without GC observes
		}
	}
	if p.New != nil {
		return p.New()
	}
	return nil
}

func ModelPoolPut(p *sync.Pool, x interface{}) {
	if x != nil {
		PoolPush(p, x)
	}
}

func ModelSliceStable(x interface{}, less func(i, j int) bool) {
	n := SliceLen(x)
	for i := 1; i < n; i++ {
		for j := i; j > 0 && less(j, j-1); j-- {
			SliceSwap(x, j, j-1)
		}
	}
}
