package verifrt

import "sync"

// Go-source models of library functions that call back into program closures (DESIGN A.2).
// The interpreter redirects the real functions here; natively the real ones run.

func ModelOnceDo(o *sync.Once, f func()) {
	if GhostGet(o, "done") == 1 {
		return
	}
	for GhostGet(o, "running") == 1 { // another goroutine is inside f: Do blocks until it has returned
		Yield()
	}
	if GhostGet(o, "done") == 1 {
		return
	}
	GhostSet(o, "running", 1) // no context switch between the tests above and this store (ghost accesses are not visible operations)
	defer func() {
		GhostSet(o, "done", 1)
		GhostSet(o, "running", 0)
		WakeAll()
	}()
	f()
}

func ModelPoolGet(p *sync.Pool) interface{} {
	if n := PoolLen(p); n > 0 {
		if GetFlag("pool-any") != 0 {
			if i := Choice(n + 1); i < n {
				return PoolTake(p, i)
			}
		} else {
			return PoolPop(p) // LIFO: what one goroutine without GC observes
		}
	}
	if p.New != nil {
		return p.New()
	}
	return nil
}

func ModelPoolPut(p *sync.Pool, x interface{}) {
	if x != nil {
		PoolPush(p, x)
	}
}

func ModelSliceStable(x interface{}, less func(i, j int) bool) {
	n := SliceLen(x)
	for i := 1; i < n; i++ {
		for j := i; j > 0 && less(j, j-1); j-- {
			SliceSwap(x, j, j-1)
		}
	}
}

// ---- sync.Map: a plain map per sync.Map object (single-threaded semantics; the interpreter's
// scheduler does not switch inside these models) ----

var syncMaps = map[*sync.Map]map[interface{}]interface{}{}

func ModelSyncMapOf(m *sync.Map) map[interface{}]interface{} {
	mm, ok := syncMaps[m]
	if !ok {
		mm = map[interface{}]interface{}{}
		syncMaps[m] = mm
	}
	return mm
}

func ModelSyncMapLoad(m *sync.Map, key interface{}) (interface{}, bool) {
	v, ok := ModelSyncMapOf(m)[key]
	return v, ok
}

func ModelSyncMapStore(m *sync.Map, key, value interface{}) { ModelSyncMapOf(m)[key] = value }

func ModelSyncMapLoadOrStore(m *sync.Map, key, value interface{}) (interface{}, bool) {
	mm := ModelSyncMapOf(m)
	if v, ok := mm[key]; ok {
		return v, true
	}
	mm[key] = value
	return value, false
}

func ModelSyncMapDelete(m *sync.Map, key interface{}) { delete(ModelSyncMapOf(m), key) }

func ModelSyncMapRange(m *sync.Map, f func(key, value interface{}) bool) {
	for k, v := range ModelSyncMapOf(m) {
		if !f(k, v) {
			return
		}
	}
}
