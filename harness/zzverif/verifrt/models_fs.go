package verifrt

import (
	"encoding/binary"
	"io"
	"os"
	"strings"
	"time"
)

// In-memory file system (DESIGN §5 C17 round trip). With flag "memfs" set the interpreter
// redirects os.Create/Open/Stat/Remove, ioutil.ReadDir, the *os.File methods and
// encoding/binary.Read/Write here, so the real metric-log writer, searcher and reader run over
// files that are byte slices (bytes may be symbolic). One flat directory; names are full paths.

type MemFile struct {
	Name string
	Data []byte
}

type memHandle struct {
	f      *MemFile
	pos    int64
	closed bool
}

var (
	memFiles   []*MemFile
	memHandles = map[*os.File]*memHandle{}
)

type memInfo struct {
	name string
	size int64
}

func (i *memInfo) Name() string       { return i.name }
func (i *memInfo) Size() int64        { return i.size }
func (i *memInfo) Mode() os.FileMode  { return 0644 }
func (i *memInfo) ModTime() time.Time { return time.Time{} }
func (i *memInfo) IsDir() bool        { return false }
func (i *memInfo) Sys() interface{}   { return nil }

func memBase(name string) string {
	if k := strings.LastIndex(name, "/"); k >= 0 {
		return name[k+1:]
	}
	return name
}

// MemLookup returns the file with this full path, or nil.
func MemLookup(name string) *MemFile {
	for _, f := range memFiles {
		if f.Name == name {
			return f
		}
	}
	return nil
}

// MemFiles returns the existing files (creation order).
func MemFiles() []*MemFile { return memFiles }

func ModelOsCreate(name string) (*os.File, error) {
	f := MemLookup(name)
	if f == nil {
		f = &MemFile{Name: name}
		memFiles = append(memFiles, f)
	}
	f.Data = nil
	h := new(os.File)
	memHandles[h] = &memHandle{f: f}
	return h, nil
}

func ModelOsOpen(name string) (*os.File, error) {
	f := MemLookup(name)
	if f == nil {
		return nil, os.ErrNotExist
	}
	h := new(os.File)
	memHandles[h] = &memHandle{f: f}
	return h, nil
}

func ModelOsStat(name string) (os.FileInfo, error) {
	if strings.HasSuffix(name, "/") || !strings.Contains(memBase(name), ".") {
		return &memInfo{name: name}, nil // the directory itself
	}
	f := MemLookup(name)
	if f == nil {
		return nil, os.ErrNotExist
	}
	return &memInfo{name: memBase(name), size: int64(len(f.Data))}, nil
}

func ModelOsIsNotExist(err error) bool { return err == os.ErrNotExist }

func ModelOsRemove(name string) error {
	for i, f := range memFiles {
		if f.Name == name {
			memFiles = append(append([]*MemFile(nil), memFiles[:i]...), memFiles[i+1:]...)
			return nil
		}
	}
	return os.ErrNotExist
}

func ModelReadDir(dir string) ([]os.FileInfo, error) {
	names := make([]string, 0, len(memFiles))
	for _, f := range memFiles {
		names = append(names, memBase(f.Name))
	}
	for i := 1; i < len(names); i++ { // ioutil.ReadDir sorts by file name
		for j := i; j > 0 && names[j] < names[j-1]; j-- {
			names[j], names[j-1] = names[j-1], names[j]
		}
	}
	out := make([]os.FileInfo, 0, len(names))
	for _, n := range names {
		out = append(out, &memInfo{name: n})
	}
	return out, nil
}

func memHandleOf(f *os.File) *memHandle {
	h := memHandles[f]
	if h == nil {
		panic("memfs: unknown *os.File")
	}
	return h
}

func ModelFileWrite(f *os.File, b []byte) (int, error) {
	h := memHandleOf(f)
	if h.closed {
		panic("memfs: write to a closed file")
	}
	if h.pos != int64(len(h.f.Data)) {
		panic("memfs: only appending writes are modelled")
	}
	h.f.Data = append(h.f.Data, b...)
	h.pos += int64(len(b))
	return len(b), nil
}

func ModelFileRead(f *os.File, b []byte) (int, error) {
	h := memHandleOf(f)
	if h.closed {
		panic("memfs: read from a closed file")
	}
	if len(b) == 0 {
		return 0, nil
	}
	if h.pos >= int64(len(h.f.Data)) {
		return 0, io.EOF
	}
	n := copy(b, h.f.Data[h.pos:])
	h.pos += int64(n)
	return n, nil
}

func ModelFileSeek(f *os.File, off int64, whence int) (int64, error) {
	h := memHandleOf(f)
	switch whence {
	case io.SeekStart:
		h.pos = off
	case io.SeekCurrent:
		h.pos += off
	case io.SeekEnd:
		h.pos = int64(len(h.f.Data)) + off
	}
	return h.pos, nil
}

func ModelFileClose(f *os.File) error {
	memHandleOf(f).closed = true
	return nil
}

func ModelFileStat(f *os.File) (os.FileInfo, error) {
	h := memHandleOf(f)
	return &memInfo{name: memBase(h.f.Name), size: int64(len(h.f.Data))}, nil
}

func ModelFileName(f *os.File) string { return memHandleOf(f).f.Name }

func ModelMkdirAll(path string, perm os.FileMode) error { return nil }

// ModelBinaryWrite / ModelBinaryRead: big-endian 64-bit integers only (all the metric log uses).
func ModelBinaryWrite(w io.Writer, order binary.ByteOrder, data interface{}) error {
	var v uint64
	switch x := data.(type) {
	case int64:
		v = uint64(x)
	case uint64:
		v = x
	default:
		panic("memfs: binary.Write of an unsupported type")
	}
	bs := make([]byte, 8)
	PutBE64(bs, v)
	_, err := w.Write(bs)
	return err
}

func ModelBinaryRead(r io.Reader, order binary.ByteOrder, data interface{}) error {
	bs := make([]byte, 8)
	n := 0
	var err error
	for n < 8 && err == nil { // io.ReadFull
		var k int
		k, err = r.Read(bs[n:])
		n += k
	}
	if n < 8 {
		if n > 0 && err == io.EOF {
			err = io.ErrUnexpectedEOF
		}
		return err
	}
	v := BE64(bs)
	switch p := data.(type) {
	case *int64:
		*p = int64(v)
	case *uint64:
		*p = v
	default:
		panic("memfs: binary.Read into an unsupported type")
	}
	return nil
}

// MemFS switches the interpreter to the in-memory file system (no effect natively).
func MemFS() {
	SetFlag("memfs", 1)
	RedirectCall("os.Create", ModelOsCreate)
	RedirectCall("os.Open", ModelOsOpen)
	RedirectCall("os.Stat", ModelOsStat)
	RedirectCall("os.IsNotExist", ModelOsIsNotExist)
	RedirectCall("os.Remove", ModelOsRemove)
	RedirectCall("os.MkdirAll", ModelMkdirAll)
	RedirectCall("io/ioutil.ReadDir", ModelReadDir)
	RedirectCall("(*os.File).Write", ModelFileWrite)
	RedirectCall("(*os.File).Read", ModelFileRead)
	RedirectCall("(*os.File).Seek", ModelFileSeek)
	RedirectCall("(*os.File).Close", ModelFileClose)
	RedirectCall("(*os.File).Stat", ModelFileStat)
	RedirectCall("(*os.File).Name", ModelFileName)
	RedirectCall("encoding/binary.Write", ModelBinaryWrite)
	RedirectCall("encoding/binary.Read", ModelBinaryRead)
}
