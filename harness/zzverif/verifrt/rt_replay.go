//go:build verifreplay

// Native bodies of the harness runtime: replay a solver model against the real build.
package verifrt

import (
	"encoding/json"
	"fmt"
	"math"
	"os"
	"reflect"
	"runtime"
	"strconv"
	"strings"
	"sync"
	"time"
	"unsafe"

	"github.com/alibaba/sentinel-golang/util"
	"github.com/alibaba/sentinel-golang/zzverif/verifpt"
)

type replayInput struct {
	Name string `json:"name"`
	W    int    `json:"w"`
	Val  string `json:"val"`
}

type replayFile struct {
	Inputs    []replayInput    `json:"inputs"`
	Params    map[string]int64 `json:"params"`
	KnownOpen []string         `json:"known_open"`
	Schedule  []int            `json:"schedule"`
}

type abort struct{ why string }

var (
	mu       sync.Mutex
	rf       replayFile
	pos      int
	Failures []string
	Diverged string
	clk      = &symClock{}
	clkSet   bool
	flags    = map[string]int{}
)

func load() {
	p := os.Getenv("VERIF_REPLAY")
	b, err := os.ReadFile(p)
	if err != nil {
		panic("verifrt: cannot read VERIF_REPLAY=" + p + ": " + err.Error())
	}
	if err := json.Unmarshal(b, &rf); err != nil {
		panic(err)
	}
}

func next(name string) uint64 {
	mu.Lock()
	defer mu.Unlock()
	if pos >= len(rf.Inputs) {
		// inputs the model did not constrain: zero
		pos++
		return 0
	}
	in := rf.Inputs[pos]
	pos++
	v, _ := strconv.ParseUint(in.Val, 10, 64)
	return v
}

func U8(name string) uint8              { return uint8(next(name)) }
func U16(name string) uint16            { return uint16(next(name)) }
func U32(name string) uint32            { return uint32(next(name)) }
func I32(name string) int32             { return int32(uint32(next(name))) }
func U64(name string) uint64            { return next(name) }
func I64(name string) int64             { return int64(next(name)) }
func Bool(name string) bool             { return next(name) == 1 }
func U64n(name string, bits int) uint64 { return next(name) }
func I64n(name string, bits int) int64  { return int64(next(name)) }
func U32n(name string, bits int) uint32 { return uint32(next(name)) }
func Choice(n int) int                  { return int(next("choice")) }
func F64(name string) float64 {
	return math.Float64frombits(next(name))
}
func F64Cmp(name string) float64 {
	fl := next(name + "_floor")
	fr := next(name + "_frac")
	f := float64(fl)
	if fr == 1 {
		f += 0.5
	}
	return f
}

func Param(name string) int {
	v, ok := rf.Params[name]
	if !ok {
		panic("verifrt: parameter not in replay file: " + name)
	}
	return int(v)
}

func Known(id string) bool {
	for _, k := range rf.KnownOpen {
		if k == id {
			return true
		}
	}
	return false
}

func Assume(ok bool) {
	if !ok {
		panic(abort{"an Assume does not hold for the replayed values"})
	}
}

func Assert(ok bool, msg string) {
	if !ok {
		mu.Lock()
		Failures = append(Failures, msg)
		mu.Unlock()
		fmt.Println("REPLAY-ASSERT-FAILED:", msg)
	}
}

func AssertExcept(ok bool, msg string, id string, region bool) {
	if Known(id) {
		Assert(ok || region, msg)
	} else {
		Assert(ok, msg)
	}
}
func Reach(label string)           {}
func Observe(name string, v int64) { fmt.Println("OBSERVE", name, v) }
func IsFinite(f float64) bool      { return !math.IsNaN(f) && !math.IsInf(f, 0) }

// ---- clock ----
type symClock struct {
	mu        sync.Mutex
	ms        uint64 // kept separately: ms*1e6 wraps for the huge timestamps the checks explore
	ns        uint64
	lastSleep int64
	sleeps    int
}

func (c *symClock) Now() time.Time {
	c.mu.Lock()
	defer c.mu.Unlock()
	return time.Unix(0, int64(c.ns))
}
func (c *symClock) Sleep(d time.Duration) {
	c.mu.Lock()
	c.lastSleep = int64(d)
	c.sleeps++
	c.mu.Unlock()
}
func (c *symClock) CurrentTimeMillis() uint64 {
	if v, ok := threadClock(); ok {
		return v
	}
	c.mu.Lock()
	defer c.mu.Unlock()
	return c.ms
}
func (c *symClock) CurrentTimeNano() uint64 {
	if v, ok := threadClock(); ok {
		return v
	}
	c.mu.Lock()
	defer c.mu.Unlock()
	return c.ns
}

// threadClock: while a schedule is replayed and the harness chose a thread clock mode, every clock
// read of the code under test takes the next recorded value (mode 1: thread-local clocks; mode 2:
// reads are ordered visible operations; mode 3: as 2, but reads from core/stat/base see the frozen time).
var lastClock = map[int]uint64{}

func threadClock() (uint64, bool) {
	mode := flags["threadclock"]
	if mode == 0 || !schedMode || !verifpt.Active() {
		return 0, false
	}
	if mode == 3 {
		// frames: threadClock <- symClock.CurrentTimeX <- util.CurrentTimeX <- caller
		var pcs [8]uintptr
		n := runtime.Callers(2, pcs[:])
		fr := runtime.CallersFrames(pcs[:n])
		for i := 0; ; i++ {
			f, more := fr.Next()
			if i == 2 {
				if strings.Contains(f.Function, "core/stat/base.") {
					return 0, false
				}
				break
			}
			if !more {
				break
			}
		}
	}
	if mode >= 2 {
		verifpt.Point()
	}
	v := next("clk")
	mu.Lock()
	lastClock[verifpt.Tid()] = v
	mu.Unlock()
	return v, true
}

func install() {
	if !clkSet {
		clkSet = true
		util.SetClock(clk)
	}
}
func SetClockMs(t uint64) {
	install()
	clk.mu.Lock()
	clk.ms, clk.ns = t, t*1000000
	clk.mu.Unlock()
}
func SetClockNs(t uint64) {
	install()
	clk.mu.Lock()
	clk.ms, clk.ns = t/1000000, t
	clk.mu.Unlock()
}
func FrozenClockNs() uint64 { clk.mu.Lock(); defer clk.mu.Unlock(); return clk.ns }
func LastSleepNs() int64    { clk.mu.Lock(); defer clk.mu.Unlock(); return clk.lastSleep }
func SleepCount() int       { clk.mu.Lock(); defer clk.mu.Unlock(); return clk.sleeps }

// ---- threads (sequential natively; interleaving replays use the instrumented scheduler) ----
var schedMode = os.Getenv("VERIF_SCHED") == "1" // the binary is instrumented and the replay file carries a schedule

func Spawn(f func()) {
	if !schedMode {
		f()
		return
	}
	verifpt.Start(rf.Schedule)
	verifpt.Spawn(func() {
		defer func() {
			if r := recover(); r != nil {
				if a, ok := r.(abort); ok {
					mu.Lock()
					Diverged = a.why
					mu.Unlock()
					return
				}
				mu.Lock()
				Failures = append(Failures, fmt.Sprint("panic in a spawned thread: ", r))
				mu.Unlock()
				fmt.Println("REPLAY-PANIC:", r)
			}
		}()
		f()
	})
}
func Join() {
	if schedMode {
		verifpt.Join()
	}
}
func Yield() {
	if schedMode {
		verifpt.Point()
	}
}
func LastClock() uint64 {
	mu.Lock()
	defer mu.Unlock()
	return lastClock[verifpt.Tid()]
}
func Tid() int {
	if t := verifpt.Tid(); t >= 0 {
		return t
	}
	return 0
}

// ---- state access ----
func fieldOf(obj interface{}, path string) reflect.Value {
	v := reflect.ValueOf(obj)
	for v.Kind() == reflect.Ptr || v.Kind() == reflect.Interface {
		v = v.Elem()
	}
	name := ""
	for i := 0; i <= len(path); i++ {
		if i == len(path) || path[i] == '.' {
			for v.Kind() == reflect.Ptr {
				v = v.Elem()
			}
			v = v.FieldByName(name)
			name = ""
			continue
		}
		name += string(path[i])
	}
	return reflect.NewAt(v.Type(), unsafe.Pointer(v.UnsafeAddr())).Elem()
}

func Poke(obj interface{}, field string, val interface{}) {
	f := fieldOf(obj, field)
	nv := reflect.ValueOf(val)
	f.Set(nv.Convert(f.Type()))
}

func Peek(obj interface{}, field string) int64 {
	f := fieldOf(obj, field)
	switch f.Kind() {
	case reflect.Int, reflect.Int8, reflect.Int16, reflect.Int32, reflect.Int64:
		return f.Int()
	default:
		return int64(f.Uint())
	}
}

func SameObject(a, b interface{}) bool {
	va, vb := reflect.ValueOf(a), reflect.ValueOf(b)
	if !va.IsValid() || !vb.IsValid() || va.Kind() != vb.Kind() {
		return false
	}
	switch va.Kind() {
	case reflect.Ptr, reflect.Map, reflect.Slice, reflect.Chan, reflect.Func, reflect.UnsafePointer:
		return va.Pointer() == vb.Pointer()
	}
	return false
}
func Guard(v interface{}, mu interface{}, what string)    {}
func GuardObj(v interface{}, mu interface{}, what string) {}
func Freeze(x interface{}, what string)                   {}
func LockFree(mu interface{}) bool                        { return true }
func SetFlag(key string, v int)                           { flags[key] = v }
func GetFlag(key string) int                              { return flags[key] }
func Fire(i int) bool                                     { return false }
func Timers() int                                         { return 0 }

func GhostGet(p interface{}, key string) int    { return 0 }
func GhostSet(p interface{}, key string, v int) {}
func PoolPush(p interface{}, x interface{})     {}
func PoolPop(p interface{}) interface{}         { return nil }
func PoolTake(p interface{}, i int) interface{} { return nil }
func PoolLen(p interface{}) int                 { return 0 }
func SliceLen(x interface{}) int                { return 0 }
func SliceSwap(x interface{}, i, j int)         {}

// RunReplay executes the harness with the values of $VERIF_REPLAY and reports what happened.
func RunReplay(h func()) (failures []string, panicked interface{}, diverged string) {
	load()
	func() {
		defer func() {
			if r := recover(); r != nil {
				if a, ok := r.(abort); ok {
					diverged = a.why
					return
				}
				panicked = r
				fmt.Println("REPLAY-PANIC:", r)
			}
		}()
		h()
	}()
	if diverged == "" {
		diverged = Diverged
	}
	if d := verifpt.Diverged(); d != "" && diverged == "" {
		diverged = d
	}
	return Failures, panicked, diverged
}

func SetFiles(names []string)                              {}
func FileSet(name string, words []uint64, cutBytes uint64) {}

func HookCall(fullName string, f func()) {}

func RedirectCall(fullName string, f interface{}) {}

func PutBE64(b []byte, v uint64) {
	for i := 0; i < 8; i++ {
		b[i] = byte(v >> (56 - 8*uint(i)))
	}
}
func BE64(b []byte) uint64 {
	var v uint64
	for i := 0; i < 8; i++ {
		v = v<<8 | uint64(b[i])
	}
	return v
}

// GuardAlt: like Guard/GuardObj, but every writer also holds the plain mutex alt, so reads under alt alone are race-free.
func GuardAlt(x interface{}, mu interface{}, alt interface{}, what string) {}

// Settle (engine-only, with flag "go-threads"): lets the goroutines started by the code under test run
// until each of them is blocked on a channel operation or has finished.
func Settle() {}

// GuardField: the object the field obj.<field> refers to is guarded by the mutex in muOwner.<muField> (unexported fields allowed).
func GuardField(obj interface{}, field string, muOwner interface{}, muField string, what string) {}

// WakeAll (models only): threads that yielded while waiting for this goroutine may run again.
func WakeAll() {}
