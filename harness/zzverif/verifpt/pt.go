// Package verifpt is the lock-step scheduler behind native replays of interleaving counterexamples
// (DESIGN §4 Replay). The replay build instruments every visible operation of the code under test
// (sync/atomic calls, mutex operations) with a call of A(...)/Point(); clock reads and rt.Yield call
// Point from the harness runtime. While a schedule is active exactly one registered goroutine runs at
// a time: a goroutine arriving at a Point hands the run token back and waits until the recorded
// schedule names it. Outside a replay with a schedule every call is a no-op.
package verifpt

import (
	"os"
	"runtime"
	"strconv"
	"strings"
	"sync"
	"time"
)

var (
	mu          sync.Mutex
	cond        = sync.NewCond(&mu)
	active      bool
	order       []int
	pos         int
	holder      = -1 // tid that holds the run token, -1: nobody
	tids        = map[int64]int{}
	nThreads    int
	started     []bool
	parked      []bool
	finished    []bool
	initPending int
	diverged    string
	freeRun     bool
	trace       = os.Getenv("VERIF_PT_TRACE") != ""
)

func goid() int64 {
	var buf [64]byte
	n := runtime.Stack(buf[:], false)
	f := strings.Fields(string(buf[:n]))
	if len(f) < 2 {
		return -1
	}
	id, _ := strconv.ParseInt(f[1], 10, 64)
	return id
}

// Active reports whether a schedule is being replayed (true from the first Spawn on).
func Active() bool {
	mu.Lock()
	defer mu.Unlock()
	return active
}

// Diverged returns a description if the recorded schedule could not be followed.
func Diverged() string {
	mu.Lock()
	defer mu.Unlock()
	return diverged
}

// Tid returns the thread id of the calling goroutine (0 = the harness's main goroutine), -1 if unknown.
func Tid() int {
	mu.Lock()
	defer mu.Unlock()
	if t, ok := tids[goid()]; ok {
		return t
	}
	return -1
}

// Start activates the scheduler with the recorded order; the caller becomes thread 0 and holds the token.
func Start(sched []int) {
	mu.Lock()
	defer mu.Unlock()
	if active {
		return
	}
	active, order, pos = true, sched, 0
	tids[goid()] = 0
	nThreads = 1
	started, parked, finished = []bool{true}, []bool{false}, []bool{false}
	holder = 0
}

// Spawn starts f as the next thread. It does not run before the main goroutine reaches a scheduling
// moment (its own next Point, or Join), where the threads' initial segments run in thread order.
func Spawn(f func()) {
	mu.Lock()
	tid := nThreads
	nThreads++
	started, parked, finished = append(started, false), append(parked, false), append(finished, false)
	mu.Unlock()
	go func() {
		mu.Lock()
		tids[goid()] = tid
		for !(started[tid] && holder == tid) && !freeRun {
			cond.Wait()
		}
		mu.Unlock()
		defer func() {
			mu.Lock()
			finished[tid] = true
			if holder == tid {
				holder = -1
			}
			cond.Broadcast()
			mu.Unlock()
		}()
		f()
	}()
}

// runInitial lets every thread that has not started yet run up to its first Point (or its end), in
// thread order. Called with mu held by the goroutine that owns the token; returns with the token free.
func runInitial(self int) {
	for t := 1; t < nThreads; t++ {
		if started[t] {
			continue
		}
		initPending++
		started[t] = true
		holder = t
		cond.Broadcast()
		for holder == t && !freeRun {
			waitOrDiverge("initial segment of thread " + strconv.Itoa(t))
		}
		initPending--
	}
	_ = self
}

func waitOrDiverge(what string) {
	// cond.Wait with a watchdog: a schedule that cannot be followed must not hang the replay
	done := make(chan struct{})
	go func() {
		select {
		case <-done:
		case <-time.After(10 * time.Second):
			mu.Lock()
			if !freeRun {
				freeRun = true
				diverged = "schedule cannot be followed natively (stuck at " + what + ", position " + strconv.Itoa(pos) + " of " + strconv.Itoa(len(order)) + ")"
			}
			cond.Broadcast()
			mu.Unlock()
		}
	}()
	cond.Wait()
	close(done)
}

// Point marks a visible operation: the caller gives the token back and continues when the schedule names it.
func Point() {
	mu.Lock()
	defer mu.Unlock()
	if !active || freeRun {
		return
	}
	tid, ok := tids[goid()]
	if !ok {
		return
	}
	if trace {
		_, file, line, _ := runtime.Caller(2)
		println("PT tid", tid, "pos", pos, file, line)
	}
	if tid == 0 {
		runInitial(0)
	}
	if holder == tid {
		holder = -1
	}
	parked[tid] = true
	cond.Broadcast()
	for !freeRun {
		if pos >= len(order) {
			// the recorded schedule is exhausted: whatever is left runs one thread at a time, lowest id first
			if holder == -1 && initPending == 0 && lowestParked() == tid {
				break
			}
		} else if order[pos] == tid && holder == -1 && initPending == 0 {
			pos++
			break
		}
		waitOrDiverge("turn of thread " + strconv.Itoa(tid))
	}
	parked[tid] = false
	holder = tid
}

func lowestParked() int {
	for t := 0; t < nThreads; t++ {
		if parked[t] && !finished[t] {
			return t
		}
	}
	return -1
}

// Join (thread 0): runs the initial segments, releases the token and waits for every other thread.
func Join() {
	mu.Lock()
	defer mu.Unlock()
	if !active {
		return
	}
	runInitial(0)
	if holder == 0 {
		holder = -1
	}
	cond.Broadcast()
	for !freeRun {
		all := true
		for t := 1; t < nThreads; t++ {
			if !finished[t] {
				all = false
			}
		}
		if all {
			break
		}
		waitOrDiverge("join")
	}
	if freeRun { // let the goroutines drain
		mu.Unlock()
		time.Sleep(200 * time.Millisecond)
		mu.Lock()
	}
	holder = 0
}

// A is the identity; it marks the visible operation whose first operand it wraps.
func A[T any](x T) T {
	Point()
	return x
}
