package hotspot

import (
	"github.com/alibaba/sentinel-golang/core/base"
	rt "github.com/alibaba/sentinel-golang/zzverif/verifrt"
)

// C05 — hot-parameter QPS rules shape each parameter value independently (DESIGN §5 C05, B.3).
// Slot-level histories on two values; resource H1 receives both values, resource H2 (same rule)
// only the requests of value 0: the decisions for value 0 must agree (independence), and every
// value's admitted tokens must stay inside the envelope of the statement.

var verifC05Grid = []struct{ thr, burst, dur, sthr int64 }{{1, 0, 1, 2}, {3, 2, 1, 1}, {10, 0, 2, 4}, {5, 5, 60, 5}, {3, 0, 1, 0}}

type verifAdm struct {
	t    int64
	b    int64
	pass int64 // throttling: scheduled pass time
}

func verifHotCtx(res string, args []interface{}, att map[interface{}]interface{}, b uint32) *base.EntryContext {
	ctx := base.NewEmptyEntryContext()
	ctx.Resource = base.NewResourceWrapper(res, base.ResTypeCommon, base.Outbound)
	ctx.Input = &base.SentinelInput{BatchCount: b, Args: args, Attachments: att}
	ctx.RuleCheckResult = base.NewTokenResultPass()
	return ctx
}

func VerifC05() {
	g := verifC05Grid[rt.Param("GRID")]
	throttling := rt.Param("MODE") == 1
	capacity := int64(rt.Param("CAP"))
	K := rt.Param("K")
	vals := []interface{}{int(7), "seven"}
	maxq := int64(0)
	idx := rt.Param("IDX")
	if idx < 0 {
		idx = -1 - rt.Choice(2) // a negative index counts from the end: -1 the last, -2 (= -len) the first of two arguments
	}
	mk := func(res string) *Rule {
		r := &Rule{Resource: res, MetricType: QPS, ParamIndex: idx, Threshold: g.thr, BurstCount: g.burst, DurationInSec: g.dur,
			ParamsMaxCapacity: capacity, SpecificItems: map[interface{}]int64{vals[0]: g.sthr}}
		if throttling {
			r.ControlBehavior, r.BurstCount, r.MaxQueueingTimeMs = Throttling, 0, maxq
		}
		return r
	}
	if throttling {
		maxq = rt.I64n("maxq", 12)
	}
	if _, err := LoadRules([]*Rule{mk("H1"), mk("H2")}); err != nil {
		rt.Assert(false, "LoadRules failed")
		return
	}
	thrOf := []int64{g.sthr, g.thr} // value 0 has the specific threshold
	t := int64(1000000 + rt.U64n("t0", 20))
	var adm [2][]verifAdm
	var first [2]int64
	var seen [2]bool
	var lastReq [2]int64
	argsFor := func(v int) []interface{} {
		if idx == -1 {
			return []interface{}{"pad", vals[v]}
		}
		return []interface{}{vals[v], "pad"}
	}
	for k := 0; k < K; k++ {
		nt := t + int64(rt.U64n("dt", 18))
		t = nt
		rt.SetClockMs(uint64(t))
		v := rt.Choice(2)
		b := int64(1 + rt.U32n("batch", 3))
		// the slot hands the wait of an admitted throttled request to the clock (util.Sleep)
		sc := rt.SleepCount()
		r1 := DefaultSlot.Check(verifHotCtx("H1", argsFor(v), nil, uint32(b)))
		blocked := r1 != nil && r1.IsBlocked()
		wait := int64(0)
		if rt.SleepCount() > sc {
			wait = rt.LastSleepNs() / 1000000
		}
		if v == 0 {
			sc2 := rt.SleepCount()
			r2 := DefaultSlot.Check(verifHotCtx("H2", argsFor(0), nil, uint32(b)))
			rt.Reach("c05.mirror")
			rt.Assert((r2 != nil && r2.IsBlocked()) == blocked, "traffic on another value never changes the decision for this value (capacity not exceeded)")
			wait2 := int64(0)
			if rt.SleepCount() > sc2 {
				wait2 = rt.LastSleepNs() / 1000000
			}
			rt.Assert(wait2 == wait, "traffic on another value never changes the wait asked of this value")
		}
		T, max := thrOf[v], thrOf[v]+g.burst
		if throttling {
			max = T
		}
		idle := seen[v] && t-lastReq[v] > g.dur*1000
		if !seen[v] {
			seen[v], first[v] = true, t
		}
		lastReq[v] = t
		rt.Reach("c05.decided")
		if !throttling {
			if !blocked {
				adm[v] = append(adm[v], verifAdm{t: t, b: b})
				var total, inDur int64
				for _, a := range adm[v] {
					total += a.b
					if a.t > t-g.dur*1000 {
						inDur += a.b
					}
				}
				rt.Assert((total-max)*1000*g.dur <= T*(t-first[v]), "admitted tokens never exceed (threshold+burst) plus threshold per elapsed duration since the value was first seen")
				rt.Assert(inDur <= 2*max, "never more than twice (threshold+burst) inside any single duration")
			}
			if idle && b <= T {
				rt.Assert(!blocked, "a value idle for longer than the duration is always granted a batch up to its threshold")
			}
		} else {
			if !blocked {
				pass := t + wait
				rt.Assert(wait == 0 || wait < maxq, "no admitted request is asked to wait as long as the maximum queueing time")
				if n := len(adm[v]); n > 0 {
					rt.Assert(pass-adm[v][n-1].pass >= b*g.dur*1000/T, "admitted requests for a value are scheduled at least batch*duration/threshold apart")
				}
				adm[v] = append(adm[v], verifAdm{t: t, b: b, pass: pass})
			}
		}
	}
	// a request without the selected argument is never limited
	rNo := DefaultSlot.Check(verifHotCtx("H1", nil, nil, 1000))
	rt.Assert(rNo == nil || !rNo.IsBlocked(), "requests without the selected argument are never limited")
	rt.Reach("c05.done")
}
