package hotspot

import (
	rt "github.com/alibaba/sentinel-golang/zzverif/verifrt"
)

// C14 (hotspot): reloading does not disturb the runtime state of unchanged rules
// (DESIGN §5 C14): object identity of the breakers of field-identical rules, statistic identity
// for modified-but-stat-compatible rules.

func verifBaseRule14(i int) *Rule {
	// two stat-compatible concurrency rules that differ in their threshold
	return &Rule{Resource: "A", MetricType: Concurrency, ParamIndex: 0, Threshold: int64(1 + i + int(rt.U32n("thr", 3))*4), ParamsMaxCapacity: 5}
}

func VerifC14() {
	rt.SetClockMs(2000000000000)
	nOld, nNew := 1+rt.Choice(rt.Param("NOLD")), 1+rt.Choice(rt.Param("NNEW"))
	// old list: pairwise different rules, or (DUP) with field-identical duplicates; rep[i] is the first old index of i's class
	var old []*Rule
	rep := make([]int, nOld)
	for i := 0; i < nOld; i++ {
		if rt.Param("DUP") != 0 && i > 0 && rt.Bool("dup") {
			rep[i] = rep[rt.Choice(i)]
			x := *old[rep[i]]
			old = append(old, &x)
		} else {
			rep[i] = i
			old = append(old, verifBaseRule14(i))
		}
	}
	// the new lists are written from values taken before the load (callers build fresh objects; the library must not depend on, or change, the loaded ones)
	snap := make([]Rule, len(old))
	for i, r := range old {
		snap[i] = *r
	}
	if _, err := LoadRules(old); err != nil {
		rt.Assert(false, "initial load failed")
		return
	}
	ob := append([]TrafficShapingController(nil), getTrafficControllersFor("A")...)
	if len(ob) != nOld {
		rt.Assert(false, "initial load did not build one controller per rule")
		return
	}
	// new list: each element an identical copy of an old rule, a modified (stat-compatible) copy, or an unrelated rule
	kind := make([]int, nNew) // k = class representative: identical to old[k]; 10+k: modified copy of old[k]; 99: unrelated
	var nl []*Rule
	for i := 0; i < nNew; i++ {
		c := rt.Choice(2*nOld + 1)
		switch {
		case c < nOld:
			x := snap[c]
			nl, kind[i] = append(nl, &x), rep[c]
		case c < 2*nOld:
			x := snap[c-nOld]
			x.Threshold += 100 // same statistic shape, different threshold
			nl, kind[i] = append(nl, &x), 10+rep[c-nOld]
		default:
			nl, kind[i] = append(nl, &Rule{Resource: "A", MetricType: QPS, ControlBehavior: Throttling, Threshold: 5, DurationInSec: 1, MaxQueueingTimeMs: 10, ParamsMaxCapacity: 5}), 99
		}
	}
	if rt.Bool("perResource") {
		LoadRulesOfResource("A", nl)
	} else {
		LoadRules(nl)
	}
	nb := getTrafficControllersFor("A")
	rt.Reach("c14.reloaded")
	if len(nb) != nNew {
		rt.Assert(false, "one controller per valid new rule")
		return
	}
	// D9 region: a modified (stat-compatible) rule precedes an identical rule
	region := false
	seenMod := false
	for i := 0; i < nNew; i++ {
		if kind[i] >= 10 && kind[i] < 99 {
			seenMod = true
		}
		if kind[i] < 10 && seenMod {
			region = true
		}
	}
	// identical rules keep their controller objects: as many as both lists hold
	keptOld := make([]bool, nOld)
	spare, surplus := 0, 0
	for k := 0; k < nOld; k++ {
		if rep[k] != k {
			continue
		}
		mOld, inNew, kept := 0, 0, 0
		for j := 0; j < nOld; j++ {
			if rep[j] == k {
				mOld++
			}
		}
		lastOld := -1 // old position of the previous kept object of this class
		for i := 0; i < nNew; i++ {
			if kind[i] == k {
				inNew++
			}
			for j := 0; j < nOld; j++ {
				if rep[j] == k && rt.SameObject(nb[i], ob[j]) {
					kept++
					keptOld[j] = true
					// duplicates of an unchanged rule keep their relative order (they are evaluated in list order, each with its own counters)
					rt.AssertExcept(j > lastOld, "kept duplicates of an unchanged rule keep their relative order across the reload", "D9", region)
					lastOld = j
					rt.Assert(kind[i] == k, "an old controller is only reused for a rule identical to its own")
				}
			}
		}
		want := mOld
		if inNew < want {
			want = inNew
		}
		spare += mOld - want
		surplus += inNew - want
		rt.AssertExcept(kept == want, "every rule identical in the old and new list keeps a controller object (per-value counters), duplicates included", "D9", region)
	}
	// a modified rule with unchanged statistic parameters keeps the accumulated statistics of an old controller
	// that no identical rule keeps, when it is the only one looking for statistics
	nMod, modIdx := 0, -1
	for i := 0; i < nNew; i++ {
		if kind[i] >= 10 && kind[i] < 99 {
			nMod++
			modIdx = i
		}
	}
	if nMod == 1 && surplus == 0 && spare >= 1 {
		rt.Reach("c14.statreuse")
		found := false
		for j := 0; j < nOld; j++ {
			if !keptOld[j] && rt.SameObject(nb[modIdx].BoundMetric(), ob[j].BoundMetric()) {
				found = true
			}
		}
		rt.AssertExcept(found, "a modified rule with unchanged statistic parameters keeps the accumulated statistics", "D9", region)
	}
}
