package hotspot

import (
	"github.com/alibaba/sentinel-golang/core/hotspot/cache"
	rt "github.com/alibaba/sentinel-golang/zzverif/verifrt"
)

// C15 (hotspot, static form): lock discipline of the rule manager and the slots.

func verifGuardHot() {
	tcMux.Lock()
	rt.Guard(&tcMap, tcMux, "hotspot.tcMap (variable)")
	rt.GuardObj(tcMap, tcMux, "hotspot.tcMap (map object)")
	for _, tcs := range tcMap {
		rt.Freeze(tcs, "a published per-resource controller slice of hotspot.tcMap")
	}
	tcMux.Unlock()
	updateRuleMux.Lock()
	rt.Guard(&currentRules, updateRuleMux, "hotspot.currentRules (variable)")
	rt.GuardObj(currentRules, updateRuleMux, "hotspot.currentRules (map object)")
	updateRuleMux.Unlock()
}

func VerifC15() {
	rt.SetClockMs(2000000000000)
	mk := func(res string, thr int64) *Rule {
		return &Rule{Resource: res, MetricType: Concurrency, ParamIndex: 0, Threshold: thr, ParamsMaxCapacity: 5}
	}
	LoadRules([]*Rule{mk("A", 1), mk("A", 2), mk("A", 3), mk("B", 4)})
	for step := 0; step < 2; step++ {
		verifGuardHot()
		switch rt.Choice(9) {
		case 0:
			LoadRules([]*Rule{mk("A", 1), mk("B", 9)})
		case 1:
			LoadRulesOfResource("A", []*Rule{mk("A", 1), mk("A", 3)})
		case 2:
			LoadRulesOfResource("A", []*Rule{mk("A", 7), mk("A", 3)})
		case 3:
			ClearRules()
		case 4:
			ClearRulesOfResource("A")
		case 5:
			GetRules()
			GetRulesOfResource("A")
		case 6:
			getTrafficControllersFor("A")
		case 7:
			ctx := verifHotCtx("A", []interface{}{7}, nil, 1)
			if r := DefaultSlot.Check(ctx); r == nil || !r.IsBlocked() {
				DefaultConcurrencyStatSlot.OnEntryPassed(ctx)
				DefaultConcurrencyStatSlot.OnCompleted(ctx)
			}
		case 8:
			LoadRulesOfResource("A", []*Rule{mk("A", 3), mk("A", 1)})
		}
		rt.Reach("c15.op")
		rt.Assert(rt.LockFree(tcMux) && rt.LockFree(updateRuleMux), "every exported function releases the locks it took")
	}
}

// VerifC15Cache: the per-rule parameter caches (LRU list, index map) are only modified with the
// cache's lock held exclusively, whatever the request path (first sight of a value, a known value that
// is not the most recent one, exit, eviction).
func VerifC15Cache() {
	rt.SetClockMs(2000000000000)
	mt := []MetricType{Concurrency, QPS}[rt.Choice(2)]
	LoadRules([]*Rule{{Resource: "A", MetricType: mt, ControlBehavior: Reject, ParamIndex: 0, Threshold: 100, DurationInSec: 1, ParamsMaxCapacity: 2}})
	tcs := getTrafficControllersFor("A")
	if len(tcs) != 1 {
		rt.Assert(false, "one controller")
		return
	}
	m := tcs[0].BoundMetric()
	for _, c := range []interface{}{m.ConcurrencyCounter, m.RuleTimeCounter, m.RuleTokenCounter} {
		if c == nil {
			continue
		}
		rt.GuardField(c, "lru.evictList", c, "lock", "a hotspot parameter cache (eviction list)")
		rt.GuardField(c, "lru.items", c, "lock", "a hotspot parameter cache (index map)")
		rt.GuardField(c, "lru", c, "lock", "a hotspot parameter cache (LRU structure)")
	}
	for step := 0; step < 4; step++ {
		v := rt.Choice(3) // three values on a cache of capacity 2
		ctx := verifHotCtx("A", []interface{}{v}, nil, 1)
		if r := DefaultSlot.Check(ctx); r == nil || !r.IsBlocked() {
			DefaultConcurrencyStatSlot.OnEntryPassed(ctx)
			if rt.Bool("exit") {
				DefaultConcurrencyStatSlot.OnCompleted(ctx)
			}
		}
		rt.Reach("c15.cache-op")
	}
}

// VerifC15CacheRace: two or three goroutines see a value for the first time at once: exactly one of
// them installs the counter, the others get that same counter (context switches at every lock operation).
func VerifC15CacheRace() {
	n := rt.Param("N")
	c := cache.NewLRUCacheMap(4)
	mine := make([]*int64, n)
	prior := make([]*int64, n)
	for i := 0; i < n; i++ {
		i := i
		mine[i] = new(int64)
		rt.Spawn(func() { prior[i] = c.AddIfAbsent("k", mine[i]) })
	}
	rt.Join()
	rt.Reach("c15.cache-race")
	cur, _ := c.Get("k")
	winners := 0
	for i := 0; i < n; i++ {
		if prior[i] == nil {
			winners++
			rt.Assert(cur == mine[i], "the counter that was installed is the one the cache reports")
		} else {
			rt.Assert(prior[i] == cur, "a caller that did not install the counter gets the installed one")
		}
	}
	rt.Assert(winners == 1, "exactly one of the concurrent first callers installs the counter")
}
