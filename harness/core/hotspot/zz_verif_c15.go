package hotspot

import (
	rt "github.com/alibaba/sentinel-golang/zzverif/verifrt"
)

// C15 (hotspot, static form): lock discipline of the rule manager and the slots.

func verifGuardHot() {
	tcMux.Lock()
	rt.Guard(&tcMap, tcMux, "hotspot.tcMap (variable)")
	rt.GuardObj(tcMap, tcMux, "hotspot.tcMap (map object)")
	for _, tcs := range tcMap {
		rt.Freeze(tcs, "a published per-resource controller slice of hotspot.tcMap")
	}
	tcMux.Unlock()
	updateRuleMux.Lock()
	rt.Guard(&currentRules, updateRuleMux, "hotspot.currentRules (variable)")
	rt.GuardObj(currentRules, updateRuleMux, "hotspot.currentRules (map object)")
	updateRuleMux.Unlock()
}

func VerifC15() {
	rt.SetClockMs(2000000000000)
	mk := func(res string, thr int64) *Rule {
		return &Rule{Resource: res, MetricType: Concurrency, ParamIndex: 0, Threshold: thr, ParamsMaxCapacity: 5}
	}
	LoadRules([]*Rule{mk("A", 1), mk("A", 2), mk("A", 3), mk("B", 4)})
	for step := 0; step < 2; step++ {
		verifGuardHot()
		switch rt.Choice(9) {
		case 0:
			LoadRules([]*Rule{mk("A", 1), mk("B", 9)})
		case 1:
			LoadRulesOfResource("A", []*Rule{mk("A", 1), mk("A", 3)})
		case 2:
			LoadRulesOfResource("A", []*Rule{mk("A", 7), mk("A", 3)})
		case 3:
			ClearRules()
		case 4:
			ClearRulesOfResource("A")
		case 5:
			GetRules()
			GetRulesOfResource("A")
		case 6:
			getTrafficControllersFor("A")
		case 7:
			ctx := verifHotCtx("A", []interface{}{7}, nil, 1)
			if r := DefaultSlot.Check(ctx); r == nil || !r.IsBlocked() {
				DefaultConcurrencyStatSlot.OnEntryPassed(ctx)
				DefaultConcurrencyStatSlot.OnCompleted(ctx)
			}
		case 8:
			LoadRulesOfResource("A", []*Rule{mk("A", 3), mk("A", 1)})
		}
		rt.Reach("c15.op")
		rt.Assert(rt.LockFree(tcMux) && rt.LockFree(updateRuleMux), "every exported function releases the locks it took")
	}
}
