package hotspot

import (
	rt "github.com/alibaba/sentinel-golang/zzverif/verifrt"
)

// C13 (hotspot): only valid, supported, latest-loaded rules are in force; reported ==
// enforced; loading never panics; an identical reload reports "unchanged".

var verifNames = []string{"", "A", "B"}

func verifMkRule(forceRes string) *Rule {
	res := forceRes
	if res == "" {
		res = verifNames[rt.Choice(3)]
	}
	if rt.Param("MODE") == 1 {
		switch rt.Choice(6) {
		case 0:
			return nil
		case 1: // valid concurrency rule, nil SpecificItems, symbolic threshold
			return &Rule{Resource: res, MetricType: Concurrency, ParamIndex: 0, Threshold: rt.I64n("thr", 20), ParamsMaxCapacity: 5}
		case 2: // invalid: negative threshold
			return &Rule{Resource: res, MetricType: Concurrency, Threshold: -1}
		case 3: // valid QPS reject rule with one specific item: symbolic key (of two) and symbolic threshold (0 = black-listed value)
			return &Rule{Resource: res, MetricType: QPS, ControlBehavior: Reject, Threshold: rt.I64n("thr", 20), BurstCount: rt.I64n("burst", 10), DurationInSec: 1, ParamsMaxCapacity: 5,
				SpecificItems: map[interface{}]int64{[]string{"x", "y"}[rt.Choice(2)]: rt.I64n("sv", 2)}}
		case 4: // valid throttling rule
			return &Rule{Resource: res, MetricType: QPS, ControlBehavior: Throttling, Threshold: 10, MaxQueueingTimeMs: rt.I64n("maxq", 20), DurationInSec: 1, ParamsMaxCapacity: 5}
		}
		// passes the validity check but has no built-in control behaviour
		return &Rule{Resource: res, MetricType: Concurrency, ControlBehavior: ControlBehavior(5), Threshold: 1, ParamsMaxCapacity: 5}
	}
	if rt.Bool("nil") {
		return nil
	}
	r := &Rule{Resource: res,
		MetricType:        MetricType(rt.I32("mt")),
		ControlBehavior:   ControlBehavior(rt.I32("cb")),
		ParamIndex:        int(rt.I64("idx")),
		Threshold:         rt.I64("thr"),
		MaxQueueingTimeMs: rt.I64("maxq"),
		BurstCount:        rt.I64("burst"),
		DurationInSec:     []int64{-1, 0, 1}[rt.Choice(3)],
		ParamsMaxCapacity: []int64{0, 5}[rt.Choice(2)],
	}
	if rt.Bool("key") {
		r.ParamKey = "k"
	}
	return r
}

func verifMkList(n int, forceRes string) []*Rule {
	m := rt.Choice(n + 1)
	l := make([]*Rule, 0, m)
	for i := 0; i < m; i++ {
		l = append(l, verifMkRule(forceRes))
	}
	return l
}

func verifCopyList(l []*Rule) []*Rule {
	if l == nil {
		return nil
	}
	c := make([]*Rule, 0, len(l))
	for _, r := range l {
		if r == nil {
			c = append(c, nil)
		} else {
			x := *r
			if r.SpecificItems != nil {
				x.SpecificItems = make(map[interface{}]int64, len(r.SpecificItems))
				for k, v := range r.SpecificItems {
					x.SpecificItems[k] = v
				}
			}
			c = append(c, &x)
		}
	}
	return c
}

func verifSame(a, b *Rule) bool {
	if len(a.SpecificItems) != len(b.SpecificItems) || (a.SpecificItems == nil) != (b.SpecificItems == nil) {
		return false
	}
	for k, v := range a.SpecificItems {
		if w, ok := b.SpecificItems[k]; !ok || w != v {
			return false
		}
	}
	return a.ID == b.ID && a.Resource == b.Resource && a.MetricType == b.MetricType && a.ControlBehavior == b.ControlBehavior && a.ParamIndex == b.ParamIndex &&
		a.ParamKey == b.ParamKey && a.Threshold == b.Threshold && a.MaxQueueingTimeMs == b.MaxQueueingTimeMs && a.BurstCount == b.BurstCount &&
		a.DurationInSec == b.DurationInSec && a.ParamsMaxCapacity == b.ParamsMaxCapacity
}

// verifSupported: control behaviour and metric type are in the module's built-in tables.
func verifSupported(r *Rule) bool {
	return (r.ControlBehavior == Reject || r.ControlBehavior == Throttling) && (r.MetricType == Concurrency || r.MetricType == QPS)
}

func verifValidList(l []*Rule, res string) []Rule {
	var out []Rule
	for _, r := range l {
		if r != nil && r.Resource == res && verifIsValid(r) && verifSupported(r) {
			out = append(out, *r)
		}
	}
	return out
}

func verifNoPanic(f func()) (ok bool) {
	defer func() {
		if r := recover(); r != nil {
			ok = false
		}
	}()
	f()
	return true
}

func VerifC13() {
	rt.SetClockMs(10000000)
	L, N := rt.Param("L"), rt.Param("N")
	ref := map[string][]Rule{}
	for step := 0; step < L; step++ {
		switch rt.Choice(4) {
		case 0:
			l := verifMkList(N, "")
			snap := verifCopyList(l)
			var err error
			rt.Assert(verifNoPanic(func() { _, err = LoadRules(l) }), "LoadRules never panics")
			rt.Assert(err == nil, "LoadRules reports no error")
			ref = map[string][]Rule{}
			for _, n := range verifNames {
				if v := verifValidList(snap, n); len(v) > 0 {
					ref[n] = v
				}
			}
			changed := true
			rt.Assert(verifNoPanic(func() { changed, _ = LoadRules(verifCopyList(snap)) }), "LoadRules never panics")
			rt.Assert(!changed, "an identical whole-set reload reports unchanged")
			rt.Reach("c13.loadall")
		case 1:
			r0 := verifNames[1+rt.Choice(2)]
			l := verifMkList(N, r0)
			snap := verifCopyList(l)
			var err error
			rt.Assert(verifNoPanic(func() { _, err = LoadRulesOfResource(r0, l) }), "LoadRulesOfResource never panics")
			rt.Assert(err == nil, "LoadRulesOfResource reports no error")
			if v := verifValidList(snap, r0); len(v) > 0 {
				ref[r0] = v
			} else {
				delete(ref, r0)
			}
			if len(l) > 0 {
				changed := true
				rt.Assert(verifNoPanic(func() { changed, _ = LoadRulesOfResource(r0, verifCopyList(snap)) }), "LoadRulesOfResource never panics")
				rt.Assert(!changed, "an identical per-resource reload reports unchanged")
			}
			rt.Reach("c13.loadres")
		case 2:
			rt.Assert(ClearRules() == nil, "ClearRules reports no error")
			ref = map[string][]Rule{}
		case 3:
			r0 := verifNames[1+rt.Choice(2)]
			rt.Assert(ClearRulesOfResource(r0) == nil, "ClearRulesOfResource reports no error")
			delete(ref, r0)
		}
		total := 0
		for _, n := range verifNames {
			want := ref[n]
			total += len(want)
			pub := GetRulesOfResource(n)
			cbs := getTrafficControllersFor(n)
			rt.Assert(len(cbs) == len(want), "controllers in force for a resource are exactly the valid rules of its latest load")
			rt.Assert(len(pub) == len(want), "rules reported for a resource are exactly those in force")
			if len(pub) == len(want) && len(cbs) == len(want) {
				for i := range want {
					rt.Assert(verifSame(&pub[i], &want[i]) && verifSame(cbs[i].BoundRule(), &want[i]), "enforced and reported rules equal the latest valid rules, in order")
				}
			}
		}
		rt.Assert(len(GetRules()) == total, "GetRules reports exactly the enforced rules")
	}
	rt.Reach("c13.done")
}

// verifIsValid asks the module's validity check about a throw-away copy: the reference must not depend on
// (or be changed by) anything the check does to the object it is given.
func verifIsValid(r *Rule) bool {
	c := *r
	return IsValidRule(&c) == nil
}

// VerifC13FieldDiff: a reload whose rule differs from the rule in force in exactly ONE field that matters to
// its control behaviour puts the new rule in force (the controller deciding afterwards is bound to the new
// values); a reload that differs in nothing reports "unchanged".
func VerifC13FieldDiff() {
	rt.SetClockMs(10000000)
	mk := func() *Rule {
		return &Rule{Resource: "A", MetricType: []MetricType{Concurrency, QPS}[rt.Choice(2)], ControlBehavior: []ControlBehavior{Reject, Throttling}[rt.Choice(2)],
			ParamIndex: 1, Threshold: 5, MaxQueueingTimeMs: 10, BurstCount: 2, DurationInSec: 1, ParamsMaxCapacity: 5,
			SpecificItems: map[interface{}]int64{"x": 1}}
	}
	base := mk()
	snapL := verifCopyList([]*Rule{base})
	if _, err := LoadRules([]*Rule{base}); err != nil {
		rt.Assert(false, "initial load failed")
		return
	}
	nr := verifCopyList(snapL)[0]
	d := 1 + int64(rt.U32n("delta", 3))
	same := false
	switch rt.Choice(12) {
	case 0: // no edit at all
		same = true
	case 1:
		nr.MetricType = QPS - nr.MetricType
	case 2:
		nr.ControlBehavior = Throttling - nr.ControlBehavior
	case 3:
		nr.ParamIndex += int(d)
	case 4:
		nr.ParamIndex, nr.ParamKey = 0, "k"
	case 5:
		nr.Threshold += d
	case 6:
		if nr.ControlBehavior != Throttling {
			return // the field is not read by the other behaviour
		}
		nr.MaxQueueingTimeMs += d
	case 7:
		if nr.ControlBehavior != Reject {
			return
		}
		nr.BurstCount += d
	case 8:
		nr.DurationInSec += d
	case 9:
		nr.ParamsMaxCapacity += d
	case 10:
		nr.SpecificItems["x"] += d
	case 11:
		delete(nr.SpecificItems, "x")
		nr.SpecificItems["y"] = 1
	}
	if !verifIsValid(nr) {
		rt.Assert(false, "a single-field edit of the populated base rule stays valid")
		return
	}
	want := verifCopyList([]*Rule{nr})[0]
	changed := false
	if rt.Bool("perResource") {
		changed, _ = LoadRulesOfResource("A", []*Rule{nr})
	} else {
		changed, _ = LoadRules([]*Rule{nr})
	}
	rt.Assert(changed == !same, "a reload reports a change exactly when a field differs")
	pub, cbs := GetRulesOfResource("A"), getTrafficControllersFor("A")
	rt.Reach("c13.fielddiff")
	if len(pub) != 1 || len(cbs) != 1 {
		rt.Assert(false, "one rule and one controller in force after the reload")
		return
	}
	rt.Assert(verifSame(&pub[0], want) && verifSame(cbs[0].BoundRule(), want), "after a reload that edits one field the enforced controller is bound to the new values")
}
