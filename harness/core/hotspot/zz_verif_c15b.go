package hotspot

import (
	"github.com/alibaba/sentinel-golang/core/base"
	rt "github.com/alibaba/sentinel-golang/zzverif/verifrt"
)

// C15(b) (hotspot): a request racing with a rule update is decided entirely by the old or entirely by the
// new rule list of its resource; updating another resource never affects it. Two threads; the request
// walks a list of concurrency rules whose thresholds are symbolically 0 (blocks every value) or large.

func VerifC15Switch() {
	rt.SetClockMs(2000000000000)
	pick := func(n int, tag string) []int64 {
		out := make([]int64, n)
		for i := range out {
			if rt.Bool(tag) {
				out[i] = 1000000
			}
		}
		return out
	}
	mk := func(res string, thr []int64, first int) []*Rule {
		var l []*Rule
		for i, t := range thr {
			l = append(l, &Rule{ID: res + string(rune('0'+first+i)), Resource: res, MetricType: Concurrency, ParamIndex: 0, Threshold: t, ParamsMaxCapacity: 5})
		}
		return l
	}
	oldThr := pick(3, "old")
	newThr := pick(2, "new")
	LoadRules(append(mk("A", oldThr, 0), mk("B", []int64{5}, 0)...))
	otherOnly := rt.Bool("otherResource")
	var blocked bool
	rt.Spawn(func() {
		ctx := base.NewEmptyEntryContext()
		ctx.Resource = base.NewResourceWrapper("A", base.ResTypeCommon, base.Outbound)
		ctx.Input = &base.SentinelInput{BatchCount: 1, Args: []interface{}{"v"}}
		ctx.RuleCheckResult = base.NewTokenResultPass()
		r := DefaultSlot.Check(ctx)
		blocked = r != nil && r.IsBlocked()
	})
	rt.Spawn(func() {
		// the new list keeps the IDs of old rule 1 and 2, dropping rule 0: unchanged rules move to the front
		if otherOnly {
			LoadRulesOfResource("B", mk("B", []int64{7}, 0))
		} else if rt.Bool("perResource") {
			LoadRulesOfResource("A", mk("A", newThr, 1))
		} else {
			LoadRules(mk("A", newThr, 1))
		}
	})
	rt.Join()
	rt.Reach("c15.switch")
	decide := func(thr []int64) bool {
		for _, t := range thr {
			if t < 1 {
				return true
			}
		}
		return false
	}
	if otherOnly {
		rt.Assert(blocked == decide(oldThr), "updating the rules of one resource never affects a concurrent decision on another resource")
	} else {
		rt.Assert(blocked == decide(oldThr) || blocked == decide(newThr), "a request racing with a rule update is decided entirely by the old or entirely by the new rule list")
	}
}
