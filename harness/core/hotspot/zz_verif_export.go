package hotspot

// VerifControllers exposes the enforced controllers of a resource to harnesses in other packages.
func VerifControllers(res string) []TrafficShapingController { return getTrafficControllersFor(res) }
