package hotspot

import (
	"github.com/alibaba/sentinel-golang/core/hotspot/cache"
	rt "github.com/alibaba/sentinel-golang/zzverif/verifrt"
)

// C05/C06 — "while the configured parameter capacity is not exceeded": the per-value caches of a rule's
// controller hold as many values as the rule configures (ParamsMaxCapacity > 0), for every capacity,
// duration, metric type and behaviour; without a configured capacity the documented defaults apply
// (QPS: 4000 per second of the statistic duration, at most 20000; concurrency: 4000).
// The cache constructor is intercepted to record the capacity it is asked for.

func VerifC05Capacity() {
	rt.SetClockMs(2000000000000)
	var sizes []int
	rt.RedirectCall("github.com/alibaba/sentinel-golang/core/hotspot/cache.NewLRUCacheMap", func(size int) cache.ConcurrentCounterCache {
		sizes = append(sizes, size)
		return nil
	})
	capacity := int64(rt.U32n("capacity", 20))
	dur := 1 + int64(rt.U32n("dur", 4))
	r := &Rule{Resource: "H", MetricType: MetricType(rt.Choice(2)), ControlBehavior: ControlBehavior(rt.Choice(2)), ParamIndex: 0, Threshold: 5,
		DurationInSec: dur, ParamsMaxCapacity: capacity, MaxQueueingTimeMs: 10}
	if rt.Bool("perResource") {
		LoadRulesOfResource("H", []*Rule{r})
	} else {
		LoadRules([]*Rule{r})
	}
	rt.Reach("c05.capacity")
	rt.Assert(len(sizes) > 0, "loading a valid rule builds its per-value caches")
	want := int(capacity)
	if capacity == 0 {
		if r.MetricType == Concurrency {
			want = 4000
		} else {
			want = int(4000 * dur)
			if want > 20000 {
				want = 20000
			}
		}
	}
	for _, s := range sizes {
		rt.Assert(s == want, "the per-value caches hold as many values as the rule configures (defaults only without a configured capacity)")
	}
}
