package hotspot

import (
	"github.com/alibaba/sentinel-golang/core/base"
	rt "github.com/alibaba/sentinel-golang/zzverif/verifrt"
)

// C06 (several goroutines, at admission-path granularity): an Entry is split into its rule-check
// phase and its statistic phase; the phases of different entries and the exits of live entries are
// interleaved in every order. Whenever no request is inside the admission path the per-value
// in-flight figure must equal the live entries of the value, and zero when they have all exited.

func VerifC06Phases() {
	rt.SetClockMs(2000000000000)
	thr := rt.I64n("thr", 3)
	vals := []interface{}{int(7), "seven"}
	if _, err := LoadRules([]*Rule{{Resource: "H", MetricType: Concurrency, ParamIndex: 0, Threshold: thr, ParamsMaxCapacity: 10}}); err != nil {
		rt.Assert(false, "LoadRules failed")
		return
	}
	type req struct {
		ctx *base.EntryContext
		v   int
	}
	var pending, live []req
	var nlive [2]int64
	K := rt.Param("K")
	for k := 0; k < K; k++ {
		op := rt.Choice(3)
		switch {
		case op == 0 || (len(pending) == 0 && len(live) == 0):
			v := rt.Choice(2)
			ctx := verifHotCtx("H", []interface{}{vals[v]}, nil, 1)
			r := DefaultSlot.Check(ctx)
			if r == nil || !r.IsBlocked() {
				pending = append(pending, req{ctx, v})
			}
			rt.Reach("c06p.check")
		case op == 1 && len(pending) > 0:
			i := rt.Choice(len(pending))
			q := pending[i]
			pending = append(pending[:i:i], pending[i+1:]...)
			DefaultConcurrencyStatSlot.OnEntryPassed(q.ctx)
			live = append(live, q)
			nlive[q.v]++
			rt.Reach("c06p.passed")
		case len(live) > 0:
			i := rt.Choice(len(live))
			q := live[i]
			live = append(live[:i:i], live[i+1:]...)
			DefaultConcurrencyStatSlot.OnCompleted(q.ctx)
			nlive[q.v]--
			rt.Reach("c06p.exit")
		}
		if len(pending) == 0 { // nobody is inside the admission path
			tcs := getTrafficControllersFor("H")
			for v := 0; v < 2; v++ {
				ptr, ok := tcs[0].BoundMetric().ConcurrencyCounter.Get(vals[v])
				var got int64
				if ok && ptr != nil {
					got = *ptr
				}
				rt.Assert(got == nlive[v], "with no request inside the admission path the per-value in-flight figure equals the live entries of the value")
			}
		}
	}
	rt.Reach("c06p.done")
}
