package outlier

import (
	"github.com/alibaba/sentinel-golang/core/circuitbreaker"
	rt "github.com/alibaba/sentinel-golang/zzverif/verifrt"
)

// C13 (outlier): at most one rule per resource (the last of the list); only valid, latest-loaded
// rules are in force; reported == enforced; loading never panics; identical reload "unchanged".

var verifNames = []string{"", "A", "B"}

func verifMkRule(forceRes string) *Rule {
	res := forceRes
	if res == "" {
		res = verifNames[rt.Choice(3)]
	}
	switch rt.Choice(5) {
	case 0:
		return nil
	case 1: // no embedded circuit breaker rule at all
		return &Rule{MaxEjectionPercent: 0.5}
	case 2: // valid
		return &Rule{Rule: &circuitbreaker.Rule{Resource: res, Strategy: circuitbreaker.ErrorCount, RetryTimeoutMs: 1 + rt.U32n("retry", 20),
			MinRequestAmount: rt.U64n("min", 10), StatIntervalMs: 1000, Threshold: float64(rt.U32n("thr", 10))},
			MaxEjectionPercent: []float64{0, 0.5, 1}[rt.Choice(3)], RecycleIntervalS: rt.U32n("recycle", 10), EnableActiveRecovery: rt.Bool("active")}
	case 3: // invalid ejection percentage
		return &Rule{Rule: &circuitbreaker.Rule{Resource: res, Strategy: circuitbreaker.ErrorCount, RetryTimeoutMs: 5, StatIntervalMs: 1000, Threshold: 1},
			MaxEjectionPercent: []float64{-0.5, 1.5}[rt.Choice(2)]}
	}
	// invalid embedded circuit breaker rule (no retry timeout)
	return &Rule{Rule: &circuitbreaker.Rule{Resource: res, Strategy: circuitbreaker.ErrorCount, StatIntervalMs: 1000, Threshold: 1}, MaxEjectionPercent: 0.5}
}

func verifCopy(r *Rule) *Rule {
	if r == nil {
		return nil
	}
	x := *r
	if r.Rule != nil {
		y := *r.Rule
		x.Rule = &y
	}
	return &x
}

func verifCopyList(l []*Rule) []*Rule {
	if l == nil {
		return nil
	}
	c := make([]*Rule, 0, len(l))
	for _, r := range l {
		c = append(c, verifCopy(r))
	}
	return c
}

func verifValid(r *Rule) bool {
	if r == nil || r.Rule == nil {
		return false
	}
	c := verifCopy(r) // a throw-away copy: the reference must not be changed by what the validity checks do to their argument
	return IsValidRule(c) == nil && circuitbreaker.IsValidRule(c.Rule) == nil
}

func verifSame(a, b *Rule) bool {
	return *a.Rule == *b.Rule && a.EnableActiveRecovery == b.EnableActiveRecovery && a.MaxEjectionPercent == b.MaxEjectionPercent &&
		a.RecoveryIntervalMs == b.RecoveryIntervalMs && a.RecycleIntervalS == b.RecycleIntervalS && a.MaxRecoveryAttempts == b.MaxRecoveryAttempts
}

func verifNoPanic(f func()) (ok bool) {
	defer func() {
		if r := recover(); r != nil {
			ok = false
		}
	}()
	f()
	return true
}

func VerifC13() {
	rt.SetClockMs(10000000)
	L, N := rt.Param("L"), rt.Param("N")
	ref := map[string]*Rule{}
	for step := 0; step < L; step++ {
		switch rt.Choice(3) {
		case 0:
			m := rt.Choice(N + 1)
			l := make([]*Rule, 0, m)
			for i := 0; i < m; i++ {
				l = append(l, verifMkRule(""))
			}
			snap := verifCopyList(l)
			var err error
			rt.Assert(verifNoPanic(func() { _, err = LoadRules(l) }), "LoadRules never panics")
			rt.Assert(err == nil, "LoadRules reports no error")
			ref = map[string]*Rule{}
			last := map[string]*Rule{} // a later rule for the same resource replaces an earlier one
			for _, r := range snap {
				if r != nil && r.Rule != nil {
					last[r.Resource] = r
				}
			}
			for n, r := range last {
				if verifValid(r) {
					ref[n] = r
				}
			}
			changed := true
			rt.Assert(verifNoPanic(func() { changed, _ = LoadRules(verifCopyList(snap)) }), "LoadRules never panics")
			rt.Assert(!changed, "an identical whole-set reload reports unchanged")
			rt.Reach("c13.loadall")
		case 1:
			r0 := verifNames[1+rt.Choice(2)]
			r := verifMkRule(r0)
			snap := verifCopy(r)
			var err error
			rt.Assert(verifNoPanic(func() { _, err = LoadRuleOfResource(r0, r) }), "LoadRuleOfResource never panics")
			switch {
			case snap == nil:
				delete(ref, r0)
			case verifValid(snap):
				rt.Assert(err == nil, "a valid per-resource rule loads without error")
				ref[r0] = snap
				changed := true
				rt.Assert(verifNoPanic(func() { changed, _ = LoadRuleOfResource(r0, verifCopy(snap)) }), "LoadRuleOfResource never panics")
				rt.Assert(!changed, "an identical per-resource reload reports unchanged")
			default:
				// an invalid per-resource rule is rejected (with an error unless it merely repeats the cached
				// raw rule) and whatever was in force for the resource stays: nothing of it may become enforced
				_ = err
			}
			rt.Reach("c13.loadres")
		case 2:
			rt.Assert(ClearRules() == nil, "ClearRules reports no error")
			ref = map[string]*Rule{}
		}
		total := 0
		for _, n := range verifNames {
			want := ref[n]
			got := getOutlierRuleOfResource(n)
			cbr := getBreakerRuleOfResource(n)
			var pub []Rule
			for _, r := range GetRules() {
				if r.Rule != nil && r.Resource == n {
					pub = append(pub, r)
				}
			}
			if want == nil {
				rt.Assert(got == nil && cbr == nil && len(pub) == 0, "no rule in force for a resource without a valid latest rule")
				continue
			}
			total++
			rt.Assert(got != nil && cbr != nil && len(pub) == 1, "the rule in force for a resource is the valid rule of its latest load")
			if got != nil && cbr != nil && len(pub) == 1 {
				rt.Assert(verifSame(got, want) && *cbr == *want.Rule && verifSame(&pub[0], want), "enforced and reported rule equal the latest valid rule")
			}
		}
		rt.Assert(len(GetRules()) == total, "GetRules reports exactly the enforced rules")
		// probing traffic: a callee node becomes known (its breaker is built as the statistic slot does);
		// the breakers of the known nodes are governed by the rule in force, and a resource without a rule has none
		for _, n := range verifNames[1:] {
			if ref[n] != nil && rt.Bool("nodeSeen") {
				addNodeBreakerOfResource(n, "10.0.0.1:80")
				if rt.Bool("secondNodeSeen") {
					addNodeBreakerOfResource(n, "10.0.0.2:80")
				}
			}
			nbs := getNodeBreakersOfResource(n)
			if ref[n] == nil {
				rt.Assert(len(nbs) == 0, "a resource without a rule in force keeps no node breakers")
				continue
			}
			if b1, b2 := nbs["10.0.0.1:80"], nbs["10.0.0.2:80"]; b1 != nil && b2 != nil {
				rt.Assert(!rt.SameObject(b1, b2), "every known node has a breaker of its own")
			}
			for _, b := range nbs {
				rt.Reach("c13.node-breaker")
				rt.Assert(b != nil && *b.BoundRule() == *ref[n].Rule, "the breakers of known nodes are governed by the latest valid rule of their resource")
			}
		}
	}
	rt.Reach("c13.done")
}
