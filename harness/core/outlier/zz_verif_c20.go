package outlier

import (
	"github.com/alibaba/sentinel-golang/core/base"
	"github.com/alibaba/sentinel-golang/core/circuitbreaker"
	rt "github.com/alibaba/sentinel-golang/zzverif/verifrt"
)

// C20 — outlier ejection never removes more than the allowed share of nodes (DESIGN §5 C20).

var verifAddrs = []string{"n0", "n1", "n2", "n3", "n4", "n5"}

var verifProbeNum uint64 // ProbeNum of the harness rule (0: a half-open breaker rejects; > 0: it admits further probes)

func verifLoadOutlierRule(p float64, active bool) bool {
	r := &Rule{Rule: &circuitbreaker.Rule{Resource: "O", Strategy: circuitbreaker.ErrorCount, RetryTimeoutMs: 1000, MinRequestAmount: 0,
		StatIntervalMs: 1000, Threshold: 1, ProbeNum: verifProbeNum}, MaxEjectionPercent: p, EnableActiveRecovery: active, RecycleIntervalS: 60}
	_, err := LoadRules([]*Rule{r})
	return err == nil
}

// VerifC20Slot: n nodes with symbolic breaker states, symbolic ejection percentage, one request.
func VerifC20Slot() {
	now := uint64(2000000000000)
	rt.SetClockMs(now)
	n := 1 + rt.Choice(rt.Param("N"))
	p := rt.F64("p")
	rt.Assume(p >= 0 && p <= 1)
	active := rt.Bool("active")
	verifProbeNum = []uint64{0, 2}[rt.Choice(2)]
	if !verifLoadOutlierRule(p, active) {
		rt.Assert(false, "LoadRules failed for a valid rule")
		return
	}
	// 0 closed, 1 open (retry not due), 2 open (retry due: this request probes it), 3 half-open
	kinds := make([]int, n)
	for i := 0; i < n; i++ {
		addNodeBreakerOfResource("O", verifAddrs[i])
	}
	nbs := getNodeBreakersOfResource("O")
	if len(nbs) != n {
		rt.Assert(false, "one breaker per node")
		return
	}
	for i := 0; i < n; i++ {
		kinds[i] = rt.Choice(4)
		b := nbs[verifAddrs[i]]
		switch kinds[i] {
		case 1:
			rt.Poke(b, "circuitBreakerBase.nextRetryTimestampMs", now+uint64(1+rt.U32n("due", 20)))
			rt.Poke(b, "circuitBreakerBase.state", verifState(circuitbreaker.Open))
		case 2:
			rt.Poke(b, "circuitBreakerBase.nextRetryTimestampMs", now-uint64(rt.U32n("overdue", 20)))
			rt.Poke(b, "circuitBreakerBase.state", verifState(circuitbreaker.Open))
		case 3:
			rt.Poke(b, "circuitBreakerBase.state", verifState(circuitbreaker.HalfOpen))
		}
	}
	ctx := base.NewEmptyEntryContext()
	ctx.Resource = base.NewResourceWrapper("O", base.ResTypeRPC, base.Outbound)
	ctx.RuleCheckResult = base.NewTokenResultPass()
	ctx.SetEntry(base.NewSentinelEntry(ctx, ctx.Resource, nil))
	if rt.Bool("recycled") {
		// a pooled context: ResetToPass keeps whatever node lists an earlier request left in the result
		ctx.RuleCheckResult.SetFilterNodes([]string{"stale0", verifAddrs[0]})
		ctx.RuleCheckResult.SetHalfOpenNodes([]string{"stale1", verifAddrs[0]})
	}
	res := DefaultSlot.Check(ctx)
	rt.Reach("c20.checked")
	rt.Assert(res != nil && !res.IsBlocked(), "the outlier slot never blocks the request itself")
	filters, halfs := res.FilterNodes(), res.HalfOpenNodes()
	rejecting, probing := 0, 0
	for i := 0; i < n; i++ {
		if kinds[i] == 1 || (kinds[i] == 3 && verifProbeNum == 0) { // open and not due, or half-open without configured probes
			rejecting++
		}
		if kinds[i] == 2 || (kinds[i] == 3 && verifProbeNum > 0) { // this request probes it: due, or half-open with probes configured
			probing++
		}
	}
	maxEject := int(float64(n) * p) // floor of MaxEjectionPercent times the number of known nodes, in float64 as the API documents
	rt.Assert(len(filters) <= maxEject, "the filter list never exceeds floor(MaxEjectionPercent * known nodes)")
	want := rejecting
	if maxEject < want {
		want = maxEject
	}
	rt.Assert(len(filters) == want, "as many rejecting nodes as allowed are reported for filtering")
	for _, f := range filters {
		k := -1
		for i := 0; i < n; i++ {
			if verifAddrs[i] == f {
				k = kinds[i]
			}
		}
		rt.Assert(k == 1 || (k == 3 && verifProbeNum == 0), "every node reported for filtering has a breaker that rejects this request")
	}
	for i := 0; i < len(filters); i++ {
		for j := i + 1; j < len(filters); j++ {
			rt.Assert(filters[i] != filters[j], "no node is reported twice")
		}
	}
	if active {
		rt.Assert(len(halfs) == 0, "with active recovery no node is reported as passively probed")
	} else {
		rt.Assert(len(halfs) == probing, "the half-open list is exactly the nodes being passively probed by this request")
		for _, h := range halfs {
			k := -1
			for i := 0; i < n; i++ {
				if verifAddrs[i] == h {
					k = kinds[i]
				}
			}
			rt.Assert(k == 2 || (k == 3 && verifProbeNum > 0), "a node reported as half-open is one this request probes")
		}
	}
}

func verifState(s circuitbreaker.State) *circuitbreaker.State { return &s }

// VerifC20Recycle: schedule / successful completion / timer firing in any order for one node.
func VerifC20Recycle() {
	rt.SetClockMs(2000000000000)
	if !verifLoadOutlierRule(0.5, false) {
		rt.Assert(false, "LoadRules failed for a valid rule")
		return
	}
	addNodeBreakerOfResource("O", "n0")
	rec := getRecyclerOfResource("O")
	K := rt.Param("K")
	fired := 0
	var okSince []bool // per armed timer: a successful completion happened since it was armed
	exists := true
	for k := 0; k < K; k++ {
		switch rt.Choice(3 + rt.Param("RELOAD")) {
		case 3: // the resource's rule is cleared and loaded again: the node breakers are dropped and lazily re-created,
			// the recycler and its armed timers live on
			ClearRuleOfResource("O")
			if !verifLoadOutlierRule(0.5, false) {
				rt.Assert(false, "LoadRules failed for a valid rule")
				return
			}
			exists = false
			rt.Reach("c20.reloaded")
		case 0: // reported as an outlier again
			rec.scheduleNodes([]string{"n0"})
			for len(okSince) < rt.Timers() {
				okSince = append(okSince, false)
			}
		case 1: // completes a request successfully
			if exists || rt.Param("RELOAD") != 0 {
				exists = true // a completion makes an unknown node known
				ctx := base.NewEmptyEntryContext()
				ctx.Resource = base.NewResourceWrapper("O", base.ResTypeRPC, base.Outbound)
				ctx.RuleCheckResult = base.NewTokenResultPass()
				ctx.Data = map[interface{}]interface{}{"address": "n0"}
				DefaultMetricStatSlot.OnCompleted(ctx)
				for i := fired; i < len(okSince); i++ {
					okSince[i] = true
				}
				rt.Reach("c20.recovered")
			}
		case 2: // the oldest pending recycle timer fires
			if fired < rt.Timers() {
				rt.Fire(fired)
				_, still := getNodeBreakersOfResource("O")["n0"]
				if okSince[fired] {
					rt.Reach("c20.fire-after-success")
					rt.Assert(still == exists, "a node that completed a request successfully since it was scheduled is not recycled")
				}
				exists = still
				fired++
			}
		}
	}
	rt.Reach("c20.done")
}

// VerifC20RecyclerRace: the first ejection (the consumer of recyclerCh schedules the node) and the first
// successful completion of a request (OnCompleted recovers the node) reach the resource's recycler at the
// same time, under every interleaving of their lock and atomic operations. Whatever the order, both use
// one recycler (with two, a node scheduled on one and recovered on the other is recycled although it
// completed a request successfully).
func VerifC20RecyclerRace() {
	rt.SetClockMs(2000000000000)
	if !verifLoadOutlierRule(0.5, false) {
		rt.Assert(false, "LoadRules failed for a valid rule")
		return
	}
	addNodeBreakerOfResource("O", "n0")
	var r1, r2 *Recycler
	rt.Spawn(func() {
		r1 = getRecyclerOfResource("O")
	})
	rt.Spawn(func() {
		r2 = getRecyclerOfResource("O")
	})
	rt.Join()
	rt.Reach("c20.race-joined")
	rt.Assert(r1 != nil && r1 == r2 && getRecyclerOfResource("O") == r1, "a resource has one recycler: concurrent first users get the same object")
}
