package outlier

import (
	"github.com/alibaba/sentinel-golang/core/base"
	"github.com/alibaba/sentinel-golang/core/circuitbreaker"
	rt "github.com/alibaba/sentinel-golang/zzverif/verifrt"
)

// C15 (outlier, static form): lock discipline of the rule manager, the node-breaker table and the slots.

func verifGuardOutlier() {
	updateMux.Lock()
	// rule maps: written under updateMux by the loaders, which all hold updateRuleMux; the loaders read them under updateRuleMux alone
	rt.GuardAlt(&outlierRules, updateMux, updateRuleMux, "outlier.outlierRules (variable)")
	rt.GuardAlt(outlierRules, updateMux, updateRuleMux, "outlier.outlierRules (map object)")
	rt.GuardAlt(&breakerRules, updateMux, updateRuleMux, "outlier.breakerRules (variable)")
	rt.GuardAlt(breakerRules, updateMux, updateRuleMux, "outlier.breakerRules (map object)")
	rt.Guard(&nodeBreakers, updateMux, "outlier.nodeBreakers (variable)")
	rt.GuardObj(nodeBreakers, updateMux, "outlier.nodeBreakers (map object)")
	for _, m := range nodeBreakers {
		rt.GuardObj(m, updateMux, "a per-resource node-breaker map of outlier.nodeBreakers (written by add/deleteNodeBreakerOfResource)")
	}
	updateMux.Unlock()
}

func VerifC15() {
	rt.SetClockMs(2000000000000)
	mk := func(res string, p float64) *Rule {
		return &Rule{Rule: &circuitbreaker.Rule{Resource: res, Strategy: circuitbreaker.ErrorCount, RetryTimeoutMs: 1000, MinRequestAmount: 0,
			StatIntervalMs: 1000, Threshold: 1}, MaxEjectionPercent: p, RecycleIntervalS: 60}
	}
	LoadRules([]*Rule{mk("A", 0.5), mk("B", 0.5)})
	addNodeBreakerOfResource("A", "n0")
	addNodeBreakerOfResource("A", "n1")
	for step := 0; step < 2; step++ {
		verifGuardOutlier()
		switch rt.Choice(9) {
		case 0:
			LoadRules([]*Rule{mk("A", 0.3)})
		case 1:
			LoadRuleOfResource("A", mk("A", 0.7))
		case 2:
			ClearRules()
		case 3:
			ClearRuleOfResource("A")
		case 4:
			GetRules()
		case 5: // a request is checked
			ctx := base.NewEmptyEntryContext()
			ctx.Resource = base.NewResourceWrapper("A", base.ResTypeRPC, base.Outbound)
			ctx.RuleCheckResult = base.NewTokenResultPass()
			ctx.SetEntry(base.NewSentinelEntry(ctx, ctx.Resource, nil))
			DefaultSlot.Check(ctx)
		case 6: // a request to a new node completes (while the resource still has a rule: without one the slot has no breaker rule to build from)
			if getBreakerRuleOfResource("A") == nil {
				break
			}
			ctx := base.NewEmptyEntryContext()
			ctx.Resource = base.NewResourceWrapper("A", base.ResTypeRPC, base.Outbound)
			ctx.RuleCheckResult = base.NewTokenResultPass()
			ctx.Data = map[interface{}]interface{}{"address": "n2"}
			DefaultMetricStatSlot.OnCompleted(ctx)
		case 7:
			deleteNodeBreakerOfResource("A", "n0")
		case 8:
			if getBreakerRuleOfResource("A") != nil {
				addNodeBreakerOfResource("A", "n3")
			}
		}
		rt.Reach("c15.op")
		rt.Assert(rt.LockFree(updateMux) && rt.LockFree(updateRuleMux), "every function releases the locks it took")
	}
}
