package metric

import (
	"sync"

	"github.com/alibaba/sentinel-golang/core/base"
	rt "github.com/alibaba/sentinel-golang/zzverif/verifrt"
)

// C17 (reduced claim: the searcher's index kernel over a modelled, truncatable index file;
// DESIGN §5 C17). The reader is a recorder; files are ghost index files.

type verifReader struct {
	called bool
	fileNo uint32
	offset uint64
}

func (r *verifReader) ReadMetrics(nameList []string, fileNo uint32, startOffset uint64, maxLines uint32) ([]*base.MetricItem, error) {
	r.called, r.fileNo, r.offset = true, fileNo, startOffset
	return nil, nil
}
func (r *verifReader) ReadMetricsByEndTime(nameList []string, fileNo uint32, startOffset uint64, beginMs uint64, endMs uint64, resource string) ([]*base.MetricItem, error) {
	r.called, r.fileNo, r.offset = true, fileNo, startOffset
	return nil, nil
}

// VerifC17Search: NF files; file i has up to 2 index entries (second, offset) with strictly increasing
// seconds across the whole log; the last file's index is cut at a symbolic byte length; Q consecutive
// queries with symbolic begin seconds on ONE searcher (position cache).
func VerifC17Search() {
	NF, Q := rt.Param("NF"), rt.Param("Q")
	names := []string{"/d/app-metrics.log.2023-01-01", "/d/app-metrics.log.2023-01-01.1", "/d/app-metrics.log.2023-01-01.2"}[:NF]
	rt.SetFiles(names)
	type ent struct {
		file   int
		sec    uint64
		offset uint64
		whole  bool // wholly before the cut
	}
	var ents []ent
	prev := uint64(1000)
	for i := 0; i < NF; i++ {
		n := 1 + rt.Choice(2)
		var words []uint64
		for k := 0; k < n; k++ {
			sec := prev + 1 + rt.U64n("gap", 8)
			prev = sec
			off := uint64(k) * 100
			words = append(words, sec, off)
			ents = append(ents, ent{i, sec, off, true})
		}
		cut := uint64(len(words)) * 8
		if i == NF-1 && rt.Param("TORN") != 0 {
			cut = rt.U64n("cut", 6)
			rt.Assume(cut <= uint64(len(words))*8)
			for k := range ents {
				if ents[k].file == i {
					idx := 0
					for j := 0; j < k; j++ {
						if ents[j].file == i {
							idx++
						}
					}
					ents[k].whole = uint64(idx+1)*16 <= cut
				}
			}
		}
		rt.FileSet(names[i]+".idx", words, cut)
	}
	rd := &verifReader{}
	se := &DefaultMetricSearcher{reader: rd, baseDir: "/d/", baseFilename: "app-metrics.log", cachedPos: &filePosition{}, mux: new(sync.Mutex)}
	for q := 0; q < Q; q++ {
		sec := 1000 + rt.U64n("q", 10)
		rd.called = false
		var err error
		if rt.Bool("byLines") {
			_, err = se.FindFromTimeWithMaxLines(sec*1000, 10)
		} else {
			_, err = se.FindByTimeAndResource(sec*1000, 1<<62, "")
		}
		rt.Reach("c17.query")
		rt.Assert(err == nil, "searching never fails, also over a torn index")
		// the first index entry (in log order) with second >= the query among the entries wholly before the cut
		want := -1
		for k, e := range ents {
			if e.whole && e.sec >= sec {
				want = k
				break
			}
		}
		if want < 0 {
			rt.Assert(!rd.called, "nothing is read when no index entry is at or after the query")
		} else {
			rt.Assert(rd.called, "the reader is started when an index entry is at or after the query")
			if rd.called {
				rt.Assert(int(rd.fileNo) == ents[want].file && rd.offset == ents[want].offset,
					"the reader starts at the first index entry at or after the query, whatever was queried before on this searcher")
			}
		}
	}
	rt.Reach("c17.done")
}
