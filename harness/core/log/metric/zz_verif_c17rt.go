package metric

import (
	"errors"
	"strings"
	"sync"

	"github.com/alibaba/sentinel-golang/core/base"
	rt "github.com/alibaba/sentinel-golang/zzverif/verifrt"
)

// C17 round trip: the real writer, searcher and reader over the in-memory file system
// (verifrt/models_fs.go). The line codec is modelled: a written line is an id byte plus filler
// whose length depends on the resource name, so file sizes, offsets and rolls vary with the items;
// a whole line parses back to exactly the written item; a line cut short parses to an error or to
// an item that was never written (what base.MetricItemFromFatString does with a truncated field).

var verifRecs []base.MetricItem

const verifIDs = "ABCDEFGHIJKLMNOPQRSTUVWXYZ"
const verifFill = "xxxxxxxxxxxxxxxxxxxxxxxx"

func verifLineLen(res string) int { return 3 + len(res) } // without the line break

func verifToFat(m *base.MetricItem) (string, error) {
	id := len(verifRecs)
	verifRecs = append(verifRecs, *m)
	if n := verifLineLen(m.Resource) - 1; n > len(verifFill) {
		return verifIDs[id:id+1] + strings.Repeat("x", n), nil // a long resource name: a line longer than any read buffer
	}
	return verifIDs[id:id+1] + verifFill[:verifLineLen(m.Resource)-1], nil
}

func verifFromFat(line string) (*base.MetricItem, error) {
	if len(line) == 0 {
		return nil, errors.New("invalid metric line: empty string")
	}
	id := int(line[0]) - 'A'
	if id < 0 || id >= len(verifRecs) {
		return nil, errors.New("invalid metric line")
	}
	if len(line) != verifLineLen(verifRecs[id].Resource) {
		if rt.Bool("tornLineParses") {
			return &base.MetricItem{Resource: "torn", Timestamp: rt.U64("tornTs")}, nil
		}
		return nil, errors.New("invalid metric line: torn")
	}
	c := verifRecs[id]
	return &c, nil
}

// verifRetained: ids of the records whose lines are inside the existing data files, oldest file first.
// whole[i] is false for a last line whose content is complete but whose line break was cut off
// (the reader may or may not return it).
func verifRetained() (ids []int, whole []bool) {
	for _, f := range rt.MemFiles() {
		if strings.HasSuffix(f.Name, MetricIdxSuffix) {
			continue
		}
		start := 0
		for i := 0; i < len(f.Data); i++ {
			if f.Data[i] == '\n' {
				id := int(f.Data[start]) - 'A'
				if i-start == verifLineLen(verifRecs[id].Resource) {
					ids, whole = append(ids, id), append(whole, true)
				}
				start = i + 1
			}
		}
		if start < len(f.Data) {
			id := int(f.Data[start]) - 'A'
			if len(f.Data)-start == verifLineLen(verifRecs[id].Resource) {
				ids, whole = append(ids, id), append(whole, false)
			}
		}
	}
	return
}

// verifIndexed: the seconds that have a whole entry in the index of the given data file.
func verifIndexed(dataName string) map[uint64]bool {
	out := map[uint64]bool{}
	f := rt.MemLookup(dataName + MetricIdxSuffix)
	if f == nil {
		return out
	}
	for k := 0; (k+1)*16 <= len(f.Data); k++ {
		out[rt.BE64(f.Data[k*16:k*16+8])] = true
	}
	return out
}

// verifMatch: got must be a subsequence of the allowed records (unchanged, in order) that contains
// every required one.
func verifMatch(got []*base.MetricItem, allowed []int, required []bool, msg string) {
	j := 0
	for _, id := range allowed {
		r := &verifRecs[id]
		if j < len(got) && got[j].Timestamp == r.Timestamp && got[j].Resource == r.Resource && got[j].PassQps == r.PassQps {
			j++
			continue
		}
		_ = r
	}
	rt.Assert(j == len(got), msg+": only items that were written and are retained are returned, in written order, without duplicates")
	j = 0
	for i, id := range allowed {
		r := &verifRecs[id]
		if j < len(got) && got[j].PassQps == r.PassQps && got[j].Resource == r.Resource {
			j++
		} else if required[i] {
			rt.Assert(false, msg+": every retained item of the range whose line and index entry are whole is returned")
		}
	}
}

func verifDataFiles() int {
	n := 0
	for _, f := range rt.MemFiles() {
		if !strings.HasSuffix(f.Name, MetricIdxSuffix) {
			n++
		}
	}
	return n
}

var verifRes = []string{"a", "bbbbbb"}

func VerifC17RoundTrip() {
	rt.MemFS()
	rt.RedirectCall("(*github.com/alibaba/sentinel-golang/core/base.MetricItem).ToFatString", verifToFat)
	rt.RedirectCall("github.com/alibaba/sentinel-golang/core/base.MetricItemFromFatString", verifFromFat)
	K, Q := rt.Param("K"), rt.Param("Q")
	resNames := []string{"", verifRes[0], verifRes[1]}
	if n := rt.Param("LONG"); n > 0 {
		resNames[2] = strings.Repeat("b", n) // resource names have no length limit
	}
	t0 := uint64(1700006400000) // 2023-11-15 00:00:00 UTC
	if rt.Param("DAY") != 0 {
		t0 += 86400000 - 2000 // two seconds before midnight
	} else {
		t0 += 3600000
	}
	rt.SetClockMs(t0)
	w := &DefaultMetricLogWriter{baseDir: "/d", baseFilename: "app-metrics.log", maxSingleSize: uint64(rt.Param("SIZE")),
		maxFileAmount: uint32(rt.Param("FILES")), mux: new(sync.RWMutex)}
	if err := w.initialize(); err != nil {
		rt.Assert(false, "the writer initialises over an empty directory")
		return
	}
	se, _ := NewDefaultMetricSearcher("/d", "app-metrics.log")
	crashState, lastDataName := 0, ""
	var query func(plain bool)
	query = func(plain bool) {
		kept, whole := verifRetained()
		// required: the line is whole and (index crash) its second still has a whole index entry
		inLast := map[int]bool{}
		if crashState == 2 && lastDataName != "" {
			f := rt.MemLookup(lastDataName)
			for i := 0; i < len(f.Data); i++ {
				if i == 0 || f.Data[i-1] == '\n' {
					inLast[int(f.Data[i])-'A'] = true
				}
			}
		}
		indexed := verifIndexed(lastDataName)
		begin := t0/1000 + rt.U64n("qb", 4)
		byLines := !plain && rt.Bool("byLines")
		end := begin + rt.U64n("qlen", 3)
		res := ""
		if !plain {
			res = resNames[rt.Choice(3)]
		}
		maxLines := uint32(1)
		if !plain {
			maxLines = uint32(1 + rt.Choice(3))
		}
		var got []*base.MetricItem
		var err error
		if byLines {
			got, err = se.FindFromTimeWithMaxLines(begin*1000, maxLines)
		} else {
			// the range is given in milliseconds and means whole seconds: any millisecond inside the first second selects it
			off := rt.U64n("qbeginMs", 10)
			rt.Assume(off < 1000)
			got, err = se.FindByTimeAndResource(begin*1000+off, end*1000+999, res)
		}
		rt.Assert(err == nil, "searching never fails")
		var want []int
		var req []bool
		for i, id := range kept {
			sec := verifRecs[id].Timestamp / 1000
			if byLines {
				if sec < begin {
					continue
				}
			} else if sec < begin || sec > end || (res != "" && res != verifRecs[id].Resource) {
				continue
			}
			want = append(want, id)
			req = append(req, whole[i] && !byLines && (!inLast[id] || indexed[sec]))
		}
		if byLines {
			if crashState == 0 {
				min := int(maxLines)
				if len(want) < min {
					min = len(want)
				}
				rt.Assert(len(got) >= min, "from-time search returns at least min(limit, available) items")
				if len(got) <= len(want) {
					want, req = want[:len(got)], req[:len(got)]
					for i := range req {
						req[i] = true // a prefix of what is retained from the begin time on
					}
				}
			}
			verifMatch(got, want, req, "from-time search")
			rt.Reach("c17rt.bylines")
		} else {
			verifMatch(got, want, req, "time-range search")
			rt.Reach("c17rt.byrange")
		}
	}
	ts := t0
	for k := 0; k < K; k++ {
		if rt.Param("SAMESEC") != 0 {
			ts += rt.U64n("gap", 11) // 0..2047 ms: the same second again, or a later one
		} else {
			ts = (ts/1000+1+rt.U64n("gapSec", 2))*1000 + rt.U64n("ms", 9) // a later second (one batch per second)
		}
		n := 1 + rt.Choice(2)
		items := make([]*base.MetricItem, 0, n)
		for i := 0; i < n; i++ {
			items = append(items, &base.MetricItem{Resource: resNames[1+rt.Choice(2)], PassQps: uint64(len(verifRecs) + i)})
		}
		err := w.Write(ts, items)
		rt.Assert(err == nil, "Write accepts a batch whose second is not before the previous one")
		rt.Assert(verifDataFiles() <= int(w.maxFileAmount), "the number of metric log files never exceeds the configured maximum")
		if rt.Param("MIX") != 0 {
			query(true) // the same searcher is used while the writer keeps rolling and removing files (time-range queries for every resource)
		}
	}
	rt.Reach("c17rt.written")
	// ---- crash: the last data file (CRASH=1) or its index (CRASH=2) is cut at an arbitrary byte ----
	crash := rt.Param("CRASH")
	lastData := ""
	for _, f := range rt.MemFiles() {
		if !strings.HasSuffix(f.Name, MetricIdxSuffix) && len(f.Data) > 0 {
			lastData = f.Name // the youngest non-empty data file
		}
	}
	if crash != 0 && lastData != "" {
		name := lastData
		if crash == 2 {
			name += MetricIdxSuffix
		}
		f := rt.MemLookup(name)
		cut := int(rt.U64n("cut", 6))
		rt.Assume(cut <= len(f.Data))
		f.Data = f.Data[:cut]
		rt.Reach("c17rt.crashed")
	}
	crashState = crash
	lastDataName = lastData
	for q := 0; q < Q; q++ {
		query(false)
	}
	rt.Reach("c17rt.done")
}

// VerifC17Order: the listing the writer (next file name, retention) and the searcher (file walk) rely
// on is in roll order — by date, then by roll number compared as a number — for any three files of a
// day or two, and the next file name continues the latest day's numbering.
func VerifC17Order() {
	rt.MemFS()
	nums := []int{0, 1, 2, 9, 10, 11, 100}
	dates := []string{"2023-11-14", "2023-11-15"}
	type fl struct {
		date, n int
		name    string
	}
	var fs []fl
	for len(fs) < 3 {
		f := fl{date: rt.Choice(2), n: nums[rt.Choice(len(nums))]}
		dup := false
		for _, g := range fs {
			if g.date == f.date && g.n == f.n {
				dup = true
			}
		}
		if dup {
			return
		}
		f.name = "/d/app-metrics.log." + dates[f.date]
		if f.n > 0 {
			f.name = f.name + "." + verifItoa(f.n)
		}
		rt.ModelOsCreate(f.name)
		rt.ModelOsCreate(f.name + MetricIdxSuffix)
		fs = append(fs, f)
	}
	got, err := listMetricFiles("/d", "app-metrics.log")
	rt.Reach("c17.order")
	rt.Assert(err == nil && len(got) == 3, "the listing holds exactly the data files")
	if len(got) != 3 {
		return
	}
	key := func(name string) int {
		for _, f := range fs {
			if f.name == name {
				return f.date*1000 + f.n
			}
		}
		return -1
	}
	rt.Assert(key(got[0]) >= 0 && key(got[0]) < key(got[1]) && key(got[1]) < key(got[2]), "metric files are listed in roll order: by date, then by roll number as a number")
	// the next file of the latest day continues its numbering
	last, maxN, has := 0, 0, false
	for _, f := range fs {
		if f.date > last {
			last = f.date
		}
	}
	for _, f := range fs {
		if f.date == last {
			has = true
			if f.n > maxN {
				maxN = f.n
			}
		}
	}
	w := &DefaultMetricLogWriter{baseDir: "/d", baseFilename: "app-metrics.log", maxSingleSize: 100, maxFileAmount: 50, mux: new(sync.RWMutex)}
	ts := uint64(1699920000000) + uint64(last)*86400000 + 3600000 // inside dates[last], UTC
	next, err := w.nextFileNameOfTime(ts)
	if has {
		rt.Assert(err == nil && next == "/d/app-metrics.log."+dates[last]+"."+verifItoa(maxN+1), "the next file name continues the numbering of its day")
	}
}

func verifItoa(n int) string {
	if n == 0 {
		return "0"
	}
	s := ""
	for n > 0 {
		s = verifIDs[26:] + string("0123456789"[n%10:n%10+1]) + s
		n /= 10
	}
	return s
}
