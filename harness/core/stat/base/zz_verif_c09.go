package base

import (
	"github.com/alibaba/sentinel-golang/core/base"
	"github.com/alibaba/sentinel-golang/util"
	rt "github.com/alibaba/sentinel-golang/zzverif/verifrt"
)

// C09 — sliding-window counters stay sound under concurrent writers and rollover (DESIGN §5 C09).
// W writer threads, each: read the (ordered, symbolic) clock, record an amount with that timestamp,
// read the clock again; "no recorder is stalled longer than one bucket" is the assumption end-now < bl.
// Context switches at every atomic access (bucket start, update lock, counters, array slots).

func VerifC09() {
	ev := []base.MetricEvent{base.MetricEventPass, base.MetricEventRt}[rt.Param("EV")] // the event kind recorded and read
	S, I := uint32(rt.Param("S")), uint32(rt.Param("I"))
	W := rt.Param("W")
	bl := uint64(I / S)
	t0 := uint64(1000000) + uint64(rt.U32n("t0", 8))
	rt.SetClockMs(t0)
	bla := verifNewArray(S, I, t0)
	rt.SetFlag("clocklo", int(t0))
	rt.SetFlag("threadclock", 2)
	nows := make([]uint64, W)
	ns := make([]int64, W)
	for i := 0; i < W; i++ {
		ns[i] = 1 + rt.I64n("n", 10)
	}
	for i := 0; i < W; i++ {
		i := i
		rt.Spawn(func() {
			now := util.CurrentTimeMillis()
			nows[i] = now
			bla.addCountWithTime(now, ev, ns[i])
			end := util.CurrentTimeMillis()
			rt.Assume(end-now < bl) // no recorder is stalled for longer than one bucket length
		})
	}
	var rdGot int64 = -1
	if rt.Param("R") != 0 { // a concurrent reader
		rt.Spawn(func() {
			now := util.CurrentTimeMillis()
			rdGot = bla.CountWithTime(now, ev)
		})
	}
	rt.Join()
	rt.Reach("c09.joined")
	if rdGot >= 0 {
		var all int64
		for i := 0; i < W; i++ {
			all += ns[i]
		}
		rt.Assert(rdGot <= all, "a concurrent reader never sees more than has been recorded")
	}
	tr := util.CurrentTimeMillis()
	var total, inWindow int64
	rollover := false
	for i := 0; i < W; i++ {
		total += ns[i]
		if verifInWindow(nows[i], tr, bl, uint64(I)) {
			inWindow += ns[i]
		}
		if nows[i]/bl*bl != t0/bl*bl {
			rollover = true
		}
	}
	got := bla.CountWithTime(tr, ev)
	rt.Assert(got <= total && got >= 0, "reported totals never exceed what has been recorded")
	if S > 1 {
		rt.Assert(got <= inWindow, "an amount is only credited to the bucket its timestamp selects: the window total never exceeds the amounts recorded for its buckets")
	}
	// with a concurrent reader the reader's own refresh of the current bucket is a rollover that a
	// recorder may overlap, so exactness is only asserted without one
	if !rollover && rdGot < 0 {
		rt.Reach("c09.norollover")
		rt.Assert(got == inWindow, "when no recorder overlaps a rollover the reported sum is exactly the recorded total")
	}
	// a recorder that is alone in the newest bucket cannot overlap another recorder's rollover of that bucket
	// (stale recorders never roll a bucket forward): what it recorded is reported while that bucket is current
	if rdGot < 0 {
		newest, cnt := uint64(0), 0
		for i := 0; i < W; i++ {
			if b := nows[i] / bl * bl; b > newest {
				newest, cnt = b, 1
			} else if b == newest {
				cnt++
			}
		}
		if cnt == 1 && tr/bl*bl == newest && newest != t0/bl*bl {
			rt.Reach("c09.alone-in-newest")
			for i := 0; i < W; i++ {
				if nows[i]/bl*bl == newest {
					rt.Assert(got >= ns[i], "what the only recorder of the newest bucket recorded is not lost (a late recorder of an older bucket must not reset it)")
				}
			}
		}
	}
	if W == 1 && rdGot < 0 {
		rt.Assert(got == inWindow, "a single recorder is always reported exactly")
	}
}
