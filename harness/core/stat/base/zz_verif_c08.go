package base

import (
	"github.com/alibaba/sentinel-golang/core/base"
	rt "github.com/alibaba/sentinel-golang/zzverif/verifrt"
)

// C08 — sliding-window statistics equal the aligned-bucket reference (DESIGN §5 C08, Appendix B.1).
// Geometry (S,I) of the array and (s,i) of the view are concrete job parameters; creation time,
// event times, kinds, amounts and the read time are symbolic.

type verifEv struct {
	t    uint64
	kind int // 0..4 = MetricEvent, 5 = UpdateConcurrency
	n    int64
}

func verifNewArray(S, I uint32, t0 uint64) *BucketLeapArray {
	bl := I / S
	bla := &BucketLeapArray{data: LeapArray{bucketLengthInMs: bl, sampleCount: S, intervalInMs: I}, dataType: "MetricBucket"}
	bla.data.array = NewAtomicBucketWrapArrayWithTime(int(S), bl, t0, bla)
	return bla
}

// inWindow: the harness's own formulation of "the event's bucket lies in the window of `width` ms
// that ends with the bucket of the read time" (t/bl*bl, not t-t%bl).
func verifInWindow(te, tr, bl, width uint64) bool {
	se, sr := te/bl*bl, tr/bl*bl
	return se <= sr && sr-se < width
}

func verifWrite(bla *BucketLeapArray, e verifEv) {
	if e.kind == 5 {
		bla.updateConcurrencyWithTime(e.t, int32(e.n))
	} else {
		bla.addCountWithTime(e.t, base.MetricEvent(e.kind), e.n)
	}
}

// verifHistory performs K writes at non-decreasing symbolic times. kind < 0: each write draws its
// own kind (0..5); otherwise every write uses the given kind.
func verifHistory(bla *BucketLeapArray, t0 uint64, K int, kind int) ([]verifEv, uint64) {
	evs := make([]verifEv, 0, K)
	prev := t0
	for j := 0; j < K; j++ {
		e := verifEv{t: rt.U64n("t", 62), kind: kind, n: rt.I64n("n", 30)}
		if kind < 0 {
			e.kind = rt.Choice(6)
		}
		rt.Assume(e.t >= prev)
		prev = e.t
		verifWrite(bla, e)
		evs = append(evs, e)
	}
	return evs, prev
}

func verifRefSum(evs []verifEv, kind int, tr, bl, width uint64) int64 {
	var want int64
	for _, e := range evs {
		if e.kind == kind && verifInWindow(e.t, tr, bl, width) {
			want += e.n
		}
	}
	return want
}

// VerifC08Hist: K writes, then every read of the view at a symbolic later time.
func VerifC08Hist() {
	S, I := uint32(rt.Param("S")), uint32(rt.Param("I"))
	s, i := uint32(rt.Param("s")), uint32(rt.Param("i"))
	K := rt.Param("K")
	bl := uint64(I / S)
	t0 := rt.U64n("t0", 62)
	rt.Assume(t0 >= 1)
	bla := verifNewArray(S, I, t0)
	m, err := NewSlidingWindowMetric(s, i, bla)
	if err != nil {
		rt.Assert(false, "a view accepted by the job grid is rejected by the validity check")
		return
	}
	rt.Assert(uint64(i)%bl == 0 && bl <= uint64(i) && i <= I && (i/s)%uint32(bl) == 0, "an accepted view tiles the underlying buckets exactly")
	// KIND=0..4: that event kind for all writes and the read; KIND=-1: one symbolic kind for all;
	// KIND=-2: every write and the read draw their own kind
	ev := rt.Param("KIND")
	if ev < 0 {
		ev = rt.Choice(5)
	}
	wk := ev
	if rt.Param("KIND") == -2 {
		wk = -1
	}
	evs, last := verifHistory(bla, t0, K, wk)
	tr := rt.U64n("tr", 62)
	rt.Assume(tr >= last)
	rt.SetClockMs(tr)
	got := m.GetSum(base.MetricEvent(ev))
	want := verifRefSum(evs, ev, tr, bl, uint64(i))
	rt.Reach("c08.read")
	rt.AssertExcept(got == want, "view sum equals the aligned-window reference", "D5", tr/bl*bl+bl < uint64(i))
	sec := float64(i) / 1000.0
	rt.Assert(m.GetQPS(base.MetricEvent(ev)) == float64(got)/sec, "QPS is the window sum over the interval in seconds")
	vbl := uint64(i / s)
	if uint64(i)+vbl <= uint64(I) && tr > vbl { // a read "at time zero" is outside the clock's domain
		wantPrev := verifRefSum(evs, ev, tr-vbl, bl, uint64(i))
		rt.Reach("c08.prev")
		rt.AssertExcept(m.GetPreviousQPS(base.MetricEvent(ev)) == float64(wantPrev)/sec, "previous-window QPS equals the reference one view bucket earlier", "D5", (tr-vbl)/bl*bl+bl < uint64(i))
	}
}

// VerifC08MinMax: minimum response time and peak concurrency of the view.
func VerifC08MinMax() {
	S, I := uint32(rt.Param("S")), uint32(rt.Param("I"))
	s, i := uint32(rt.Param("s")), uint32(rt.Param("i"))
	K := rt.Param("K")
	bl := uint64(I / S)
	t0 := rt.U64n("t0", 62)
	rt.Assume(t0 >= uint64(I))
	bla := verifNewArray(S, I, t0)
	m, err := NewSlidingWindowMetric(s, i, bla)
	if err != nil {
		rt.Assert(false, "a view accepted by the job grid is rejected by the validity check")
		return
	}
	evs := make([]verifEv, 0, K)
	prev := t0
	for j := 0; j < K; j++ {
		e := verifEv{t: rt.U64n("t", 62), kind: 4 + rt.Choice(2), n: rt.I64n("n", 30)}
		rt.Assume(e.t >= prev)
		prev = e.t
		verifWrite(bla, e)
		evs = append(evs, e)
	}
	tr := rt.U64n("tr", 62)
	rt.Assume(tr >= prev)
	rt.SetClockMs(tr)
	wantMin := base.DefaultStatisticMaxRt
	var wantMax int64
	for _, e := range evs {
		if !verifInWindow(e.t, tr, bl, uint64(i)) {
			continue
		}
		if e.kind == 4 && e.n < wantMin {
			wantMin = e.n
		}
		if e.kind == 5 && e.n > wantMax {
			wantMax = e.n
		}
	}
	if wantMin < 1 {
		wantMin = 1
	}
	rt.Reach("c08.minmax")
	rt.Assert(m.MinRT() == float64(wantMin), "minimum response time over the window (floored at 1)")
	rt.Assert(int64(m.MaxConcurrency()) == wantMax, "peak concurrency over the window")
	sumRt, sumC := m.GetSum(base.MetricEventRt), m.GetSum(base.MetricEventComplete)
	rt.Assert(sumRt == verifRefSum(evs, 4, tr, bl, uint64(i)) && sumC == 0, "response-time sum over the window")
}

// VerifC08Array: readers of the underlying array: the refreshing reader (CountWithTime/Values) and
// the non-refreshing conditional reader used for the per-second metric items.
func VerifC08Array() {
	S, I := uint32(rt.Param("S")), uint32(rt.Param("I"))
	K := rt.Param("K")
	bl := uint64(I / S)
	t0 := rt.U64n("t0", 62)
	rt.Assume(t0 >= uint64(I))
	bla := verifNewArray(S, I, t0)
	evs := make([]verifEv, 0, K)
	prev := t0
	for j := 0; j < K; j++ {
		e := verifEv{t: rt.U64n("t", 62), kind: 0, n: rt.I64n("n", 30)}
		rt.Assume(e.t >= prev && e.n >= 1)
		prev = e.t
		verifWrite(bla, e)
		evs = append(evs, e)
	}
	tr := rt.U64n("tr", 62)
	rt.Assume(tr >= prev)
	rt.SetClockMs(tr)
	lo, hi := rt.U64n("lo", 62), rt.U64n("hi", 62)
	var gotCond int64
	nb := 0
	for _, w := range bla.ValuesConditional(tr, func(ws uint64) bool { return ws >= lo && ws <= hi }) {
		gotCond += w.Value.Load().(*MetricBucket).Get(base.MetricEventPass)
		nb++
	}
	var wantCond int64
	stale := false
	for _, e := range evs {
		se := e.t / bl * bl
		if verifInWindow(e.t, tr, bl, uint64(I)) && se >= lo && se <= hi {
			wantCond += e.n
		}
		if se+uint64(I) == tr {
			stale = true
		}
	}
	rt.Reach("c08.cond")
	rt.AssertExcept(gotCond == wantCond, "a conditional (non-refreshing) read returns exactly the events of the array window that satisfy the predicate", "D17", stale)
	rt.Assert(nb <= int(S), "no more buckets than slots")
	got := bla.CountWithTime(tr, base.MetricEventPass)
	rt.Reach("c08.count")
	rt.Assert(got == verifRefSum(evs, 0, tr, bl, uint64(I)), "the array total equals the events of the last S buckets")
}

// VerifC08Items: the per-second metric items of a view (SecondMetricsOnCondition): one item per
// second that has a live bucket passing the predicate, carrying exactly the events of the window that
// fall into buckets starting in that second.
func VerifC08Items() {
	S, I := uint32(rt.Param("S")), uint32(rt.Param("I"))
	K := rt.Param("K")
	bl := uint64(I / S)
	t0 := rt.U64n("t0", 62)
	rt.Assume(t0 >= uint64(I))
	bla := verifNewArray(S, I, t0)
	m, err := NewSlidingWindowMetric(S, I, bla)
	if err != nil {
		rt.Assert(false, "the full-array view is rejected by the validity check")
		return
	}
	evs, last := verifHistory(bla, t0, K, -1)
	tr := rt.U64n("tr", 62)
	rt.Assume(tr >= last)
	rt.SetClockMs(tr)
	lo := rt.U64n("lo", 62)
	items := m.SecondMetricsOnCondition(func(ts uint64) bool { return ts >= lo })
	rt.Reach("c08.items")
	counted := func(e verifEv) bool {
		return verifInWindow(e.t, tr, bl, uint64(I)) && e.t/bl*bl >= lo
	}
	for a, it := range items {
		rt.Assert(it.Timestamp%1000 == 0, "an item is stamped with the start of its second")
		for b := a + 1; b < len(items); b++ {
			rt.Assert(items[b].Timestamp != it.Timestamp, "one item per second")
		}
		var sum [5]int64
		var maxc int64
		for _, e := range evs {
			if !counted(e) || e.t/bl*bl/1000*1000 != it.Timestamp {
				continue
			}
			if e.kind == 5 {
				if e.n > maxc {
					maxc = e.n
				}
			} else {
				sum[e.kind] += e.n
			}
		}
		rt.Assert(int64(it.PassQps) == sum[0] && int64(it.BlockQps) == sum[1] && int64(it.CompleteQps) == sum[2] && int64(it.ErrorQps) == sum[3],
			"an item carries exactly the events of the window that fall into the buckets of its second")
		wantRt := uint64(sum[4])
		if sum[2] > 0 {
			wantRt = uint64(sum[4]) / uint64(sum[2])
		}
		rt.Assert(it.AvgRt == wantRt, "an item's average response time is the response-time sum over the completions of its second")
		rt.Assert(int64(it.Concurrency) == maxc, "an item's concurrency is the peak recorded in its second")
	}
	for _, e := range evs {
		if !counted(e) {
			continue
		}
		found := false
		for _, it := range items {
			if it.Timestamp == e.t/bl*bl/1000*1000 {
				found = true
			}
		}
		rt.Assert(found, "every event of the window appears in the item of its second")
	}
}

// VerifC08Ctor: a window view is only constructible when it tiles the underlying buckets exactly.
// The array geometry (S,I) is a concrete job parameter; the view's sample count and interval are
// symbolic (16 bits each). Tiling, stated without the implementation's divisions: the view interval
// is n whole view buckets, a view bucket is m whole array buckets, and the array interval is k whole
// view intervals.
func VerifC08Ctor() {
	S, I := uint32(rt.Param("S")), uint32(rt.Param("I"))
	bla := verifNewArray(S, I, 0)
	s, i := rt.U32n("viewSamples", 16), rt.U32n("viewInterval", 16)
	m, err := NewSlidingWindowMetric(s, i, bla)
	rt.Assert((m != nil) == (err == nil), "a view or an error")
	if err != nil {
		rt.Reach("c08.ctor-rejected")
		return
	}
	rt.Reach("c08.ctor-accepted")
	bl := I / S
	rt.Assert(s > 0 && i > 0, "a view has at least one bucket and a positive interval")
	if s == 0 || i == 0 {
		return
	}
	vb := i / s
	rt.Assert(vb*s == i, "the view interval is a whole number of view buckets")
	rt.Assert(vb > 0 && vb/bl*bl == vb, "a view bucket is a whole number of array buckets")
	rt.Assert(I/i*i == I, "the array interval is a whole number of view intervals")
}
