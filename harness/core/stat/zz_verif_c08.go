package stat

import (
	"github.com/alibaba/sentinel-golang/core/base"
	"github.com/alibaba/sentinel-golang/core/config"
	rt "github.com/alibaba/sentinel-golang/zzverif/verifrt"
)

// C08 at the level of a resource's statistic node (BaseStatNode): every getter reads the node's view
// window (2 x 500 ms) of the underlying array (4 x 500 ms under the shrunk global geometry), never
// the whole array: sums, QPS, average and minimum response time, peak concurrency.

type verifNodeEv struct {
	t    uint64
	kind int // 0..4 MetricEvent, 5 concurrency update
	n    int64
}

func verifNodeIn(te, tr uint64) bool { // the event's 500 ms bucket lies in the 1000 ms window ending with the bucket of tr
	se, sr := te/500*500, tr/500*500
	return se <= sr && sr-se < 1000
}

func VerifC08Node() {
	ent := config.NewDefaultConfig()
	ent.Sentinel.Stat.GlobalStatisticSampleCountTotal = 4
	ent.Sentinel.Stat.GlobalStatisticIntervalMsTotal = 2000
	ent.Sentinel.Stat.MetricStatisticSampleCount = 2
	ent.Sentinel.Stat.MetricStatisticIntervalMs = 1000
	config.ResetGlobalConfig(ent)
	t := uint64(2000000000000) + rt.U64n("t0", 12)
	rt.SetClockMs(t)
	n := NewBaseStatNode(2, 1000)
	K := rt.Param("K")
	var evs []verifNodeEv
	for k := 0; k < K; k++ {
		t += rt.U64n("dt", 12)
		rt.SetClockMs(t)
		e := verifNodeEv{t: t, kind: rt.Choice(6), n: int64(rt.U32n("n", 20))}
		if e.kind == 5 {
			n.UpdateConcurrency(int32(e.n))
		} else {
			n.AddCount(base.MetricEvent(e.kind), e.n)
		}
		evs = append(evs, e)
	}
	t += rt.U64n("dtr", 12)
	rt.SetClockMs(t)
	rt.Reach("c08.node")
	var sum [5]int64
	var maxc int64
	minRt := int64(base.DefaultStatisticMaxRt)
	for _, e := range evs {
		if !verifNodeIn(e.t, t) {
			continue
		}
		if e.kind == 5 {
			if e.n > maxc {
				maxc = e.n
			}
			continue
		}
		sum[e.kind] += e.n
		if e.kind == int(base.MetricEventRt) && e.n < minRt {
			minRt = e.n
		}
	}
	for ev := 0; ev < 5; ev++ {
		rt.Assert(n.GetSum(base.MetricEvent(ev)) == sum[ev], "a node's sum counts exactly the events of its view window")
		rt.Assert(n.GetQPS(base.MetricEvent(ev)) == float64(sum[ev]), "a node's QPS is its window sum over one second")
	}
	rt.Assert(int64(n.MaxConcurrency()) == maxc, "a node's peak concurrency is the peak recorded in its view window")
	if minRt < 1 {
		minRt = 1
	}
	rt.Assert(n.MinRT() == float64(minRt), "a node's minimum response time is the minimum recorded in its view window (floored at 1)")
	if sum[2] > 0 {
		rt.Assert(n.AvgRT() == float64(sum[4]/sum[2]), "a node's average response time is the response-time sum over the completions of its view window")
	} else {
		rt.Assert(n.AvgRT() == 0, "no completion, no average response time")
	}
}
