package stat

import (
	"github.com/alibaba/sentinel-golang/core/base"
	rt "github.com/alibaba/sentinel-golang/zzverif/verifrt"
)

// C15 (statistic node storage, static form): the resource-node map is only touched under its mutex.
func VerifC15() {
	rt.SetClockMs(2000000000000)
	GetOrCreateResourceNode("A", base.ResTypeCommon)
	for step := 0; step < 3; step++ {
		rnsMux.Lock()
		rt.Guard(&resNodeMap, rnsMux, "stat.resNodeMap (variable)")
		rt.GuardObj(resNodeMap, rnsMux, "stat.resNodeMap (map object)")
		rnsMux.Unlock()
		switch rt.Choice(5) {
		case 0:
			GetOrCreateResourceNode("A", base.ResTypeCommon)
		case 1:
			GetOrCreateResourceNode("B", base.ResTypeWeb)
		case 2:
			rt.Assert(GetResourceNode("A") != nil || step > 0, "an existing node is found")
		case 3:
			ResourceNodeList()
		case 4:
			ResetResourceNodeMap()
		}
		rt.Reach("c15.op")
		rt.Assert(rt.LockFree(rnsMux), "every function releases the lock it took")
	}
}

// VerifNodeRace: two (or three) goroutines enter a resource for the first time at once; context
// switches at every lock operation. They must share one statistic node (the in-flight count the
// isolation check reads), and that node is the one the storage reports.
func VerifNodeRace() {
	rt.SetClockMs(2000000000000)
	n := rt.Param("N")
	got := make([]*ResourceNode, n)
	for i := 0; i < n; i++ {
		i := i
		rt.Spawn(func() {
			got[i] = GetOrCreateResourceNode("X", base.ResTypeCommon)
			got[i].IncreaseConcurrency()
		})
	}
	rt.Join()
	rt.Reach("noderace.joined")
	cur := GetResourceNode("X")
	rt.Assert(cur != nil, "the resource has a statistic node")
	for i := 0; i < n; i++ {
		rt.Assert(got[i] == cur, "concurrent first entries of a resource share the one statistic node the storage reports")
	}
	rt.Assert(int(cur.CurrentConcurrency()) == n, "the in-flight count of the resource counts every concurrent first entry")
}

// VerifGaugeRace: entries of one resource enter and exit at once (context switches at every atomic
// access of the in-flight gauge): afterwards the gauge is exactly the number in flight — no increment
// or decrement is lost, and it is zero when nothing is in flight.
func VerifGaugeRace() {
	rt.SetClockMs(2000000000000)
	n := rt.Param("N")
	node := GetOrCreateResourceNode("G", base.ResTypeCommon)
	want := int32(0)
	enters := make([]bool, n)
	for i := 0; i < n; i++ {
		enters[i] = rt.Bool("enters")
		if !enters[i] {
			node.IncreaseConcurrency() // an entry already in flight that will exit
		}
	}
	for i := 0; i < n; i++ {
		if enters[i] {
			want++
			rt.Spawn(func() { node.IncreaseConcurrency() })
		} else {
			rt.Spawn(func() { node.DecreaseConcurrency() })
		}
	}
	rt.Join()
	rt.Reach("gaugerace.joined")
	rt.Assert(node.CurrentConcurrency() == want, "the in-flight gauge equals the entries in flight after concurrent entries and exits (zero when none is)")
}
