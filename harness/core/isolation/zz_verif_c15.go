package isolation

import (
	"github.com/alibaba/sentinel-golang/core/base"
	"github.com/alibaba/sentinel-golang/core/stat"
	rt "github.com/alibaba/sentinel-golang/zzverif/verifrt"
)

// C15 (isolation, static form): lock discipline of the rule manager and the slot.

func verifGuardIso() {
	rwMux.Lock()
	rt.Guard(&ruleMap, rwMux, "isolation.ruleMap (variable)")
	rt.GuardObj(ruleMap, rwMux, "isolation.ruleMap (map object)")
	for _, rs := range ruleMap {
		rt.Freeze(rs, "a published per-resource rule slice of isolation.ruleMap")
	}
	rwMux.Unlock()
	updateRuleMux.Lock()
	rt.Guard(&currentRules, updateRuleMux, "isolation.currentRules (variable)")
	rt.GuardObj(currentRules, updateRuleMux, "isolation.currentRules (map object)")
	updateRuleMux.Unlock()
}

func VerifC15() {
	rt.SetClockMs(2000000000000)
	mk := func(res string, thr uint32) *Rule {
		return &Rule{Resource: res, MetricType: Concurrency, Threshold: thr}
	}
	LoadRules([]*Rule{mk("A", 1), mk("A", 2), mk("B", 3)})
	node := stat.GetOrCreateResourceNode("A", base.ResTypeCommon)
	for step := 0; step < 2; step++ {
		verifGuardIso()
		switch rt.Choice(8) {
		case 0:
			LoadRules([]*Rule{mk("A", 5), mk("B", 3)})
		case 1:
			LoadRulesOfResource("A", []*Rule{mk("A", 2), {Resource: "A"}})
		case 2:
			ClearRules()
		case 3:
			ClearRulesOfResource("A")
		case 4:
			GetRules()
			GetRulesOfResource("A")
		case 5:
			getRules()
			getRulesOfResource("B")
		case 6:
			ctx := base.NewEmptyEntryContext()
			ctx.Resource = base.NewResourceWrapper("A", base.ResTypeCommon, base.Outbound)
			ctx.StatNode = node
			ctx.Input = &base.SentinelInput{BatchCount: 1}
			ctx.RuleCheckResult = base.NewTokenResultPass()
			DefaultSlot.Check(ctx)
		case 7:
			LoadRulesOfResource("A", nil)
		}
		rt.Reach("c15.op")
		rt.Assert(rt.LockFree(rwMux) && rt.LockFree(updateRuleMux), "every exported function releases the locks it took")
	}
}
