package isolation

import (
	rt "github.com/alibaba/sentinel-golang/zzverif/verifrt"
)

// C13 (isolation): only valid, latest-loaded rules are in force; reported == enforced; loading
// never panics; an identical reload reports "unchanged" (DESIGN §5 C13, Appendix B.4).

var verifNames = []string{"", "A", "B"}

func verifMkRule(forceRes string) *Rule {
	if rt.Bool("nil") {
		return nil
	}
	r := &Rule{Resource: forceRes, MetricType: MetricType(rt.Choice(2)), Threshold: rt.U32("thr")}
	if forceRes == "" {
		r.Resource = verifNames[rt.Choice(3)]
	}
	return r
}

func verifMkList(n int, forceRes string) []*Rule {
	m := rt.Choice(n + 1)
	l := make([]*Rule, 0, m)
	for i := 0; i < m; i++ {
		l = append(l, verifMkRule(forceRes))
	}
	return l
}

func verifCopyList(l []*Rule) []*Rule {
	if l == nil {
		return nil
	}
	c := make([]*Rule, 0, len(l))
	for _, r := range l {
		if r == nil {
			c = append(c, nil)
		} else {
			x := *r
			c = append(c, &x)
		}
	}
	return c
}

func verifValid(l []*Rule, res string, any bool) []Rule {
	var out []Rule
	for _, r := range l {
		if r != nil && (any || r.Resource == res) && verifIsValid(r) {
			out = append(out, *r)
		}
	}
	return out
}

func verifNoPanic(f func()) (ok bool) {
	defer func() {
		if r := recover(); r != nil {
			ok = false
		}
	}()
	f()
	return true
}

func VerifC13() {
	L, N := rt.Param("L"), rt.Param("N")
	ref := map[string][]Rule{}
	for step := 0; step < L; step++ {
		switch rt.Choice(4) {
		case 0:
			l := verifMkList(N, "")
			var err error
			rt.Assert(verifNoPanic(func() { _, err = LoadRules(l) }), "LoadRules never panics")
			rt.Assert(err == nil, "LoadRules reports no error")
			ref = map[string][]Rule{}
			for _, n := range verifNames {
				if v := verifValid(l, n, false); len(v) > 0 {
					ref[n] = v
				}
			}
			changed := true
			rt.Assert(verifNoPanic(func() { changed, _ = LoadRules(verifCopyList(l)) }), "LoadRules never panics")
			rt.Assert(!changed, "an identical whole-set reload reports unchanged")
			rt.Reach("c13.loadall")
		case 1:
			r0 := verifNames[1+rt.Choice(2)]
			l := verifMkList(N, r0)
			rt.Assert(verifNoPanic(func() { LoadRulesOfResource(r0, l) }), "LoadRulesOfResource never panics")
			if v := verifValid(l, r0, true); len(v) > 0 {
				ref[r0] = v
			} else {
				delete(ref, r0)
			}
			if len(l) > 0 {
				changed := true
				rt.Assert(verifNoPanic(func() { changed, _ = LoadRulesOfResource(r0, verifCopyList(l)) }), "LoadRulesOfResource never panics")
				rt.Assert(!changed, "an identical per-resource reload reports unchanged")
			}
			rt.Reach("c13.loadres")
		case 2:
			rt.Assert(ClearRules() == nil, "ClearRules reports no error")
			ref = map[string][]Rule{}
		case 3:
			r0 := verifNames[1+rt.Choice(2)]
			rt.Assert(ClearRulesOfResource(r0) == nil, "ClearRulesOfResource reports no error")
			delete(ref, r0)
		}
		total := 0
		for _, n := range verifNames {
			want := ref[n]
			total += len(want)
			got := getRulesOfResource(n)
			pub := GetRulesOfResource(n)
			rt.Assert(len(got) == len(want) && len(pub) == len(want), "rules in force for a resource are exactly the valid rules of its latest load")
			if len(got) == len(want) && len(pub) == len(want) {
				for i := range want {
					rt.Assert(*got[i] == want[i] && pub[i] == want[i], "enforced and reported rules equal the latest valid rules, in order")
				}
			}
		}
		rt.Assert(len(GetRules()) == total, "GetRules reports exactly the enforced rules")
	}
	rt.Reach("c13.done")
}

// verifIsValid asks the module's validity check about a throw-away copy: the reference must not depend on
// (or be changed by) anything the check does to the object it is given.
func verifIsValid(r *Rule) bool {
	c := *r
	return IsValidRule(&c) == nil
}
