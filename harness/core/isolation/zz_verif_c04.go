package isolation

import (
	"github.com/alibaba/sentinel-golang/core/base"
	"github.com/alibaba/sentinel-golang/core/stat"
	rt "github.com/alibaba/sentinel-golang/zzverif/verifrt"
)

// VerifC04Step: one admission decision from an arbitrary in-flight count (C04, step obligation).
// 1..NR rules with symbolic thresholds (full uint32), symbolic gauge >= 0, symbolic batch (full uint32).
func VerifC04Step() {
	n := 1 + rt.Choice(rt.Param("NR"))
	rules := make([]*Rule, 0, n)
	for i := 0; i < n; i++ {
		rules = append(rules, &Rule{Resource: "A", MetricType: Concurrency, Threshold: rt.U32("thr")})
	}
	if _, err := LoadRules(rules); err != nil {
		rt.Assert(false, "LoadRules returned an error")
		return
	}
	node := stat.GetOrCreateResourceNode("A", base.ResTypeCommon)
	cur := rt.U32("cur")
	rt.Assume(cur < 1<<31) // the gauge is an int32 >= 0
	rt.Poke(node, "BaseStatNode.concurrency", int32(cur))
	ctx := base.NewEmptyEntryContext()
	ctx.Resource = base.NewResourceWrapper("A", base.ResTypeCommon, base.Inbound)
	ctx.StatNode = node
	ctx.Input = &base.SentinelInput{BatchCount: rt.U32("batch")}
	ctx.RuleCheckResult = base.NewTokenResultPass()
	res := DefaultSlot.Check(ctx)
	want := true // oracle from the statement, evaluated in 64 bit
	enforced := GetRulesOfResource("A")
	for _, r := range enforced {
		if uint64(cur)+uint64(ctx.Input.BatchCount) > uint64(r.Threshold) {
			want = false
		}
	}
	got := res == nil || !res.IsBlocked()
	rt.Reach("c04.step.decided")
	rt.Assert(got == want, "admitted iff in-flight + batch <= every threshold")
	rt.Assert(int32(cur) == node.CurrentConcurrency(), "a rule check leaves the gauge unchanged")
}
