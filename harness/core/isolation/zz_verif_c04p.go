package isolation

import (
	"github.com/alibaba/sentinel-golang/core/base"
	"github.com/alibaba/sentinel-golang/core/stat"
	rt "github.com/alibaba/sentinel-golang/zzverif/verifrt"
)

// C04 (concurrent clause, admission-path granularity): an Entry is split into its rule-check phase
// and its statistic phase; phases of different requests and exits interleave in every order. With at
// most k requests simultaneously inside the admission path the in-flight count exceeds N by at most k-1.

func VerifC04Phases() {
	rt.SetClockMs(2000000000000)
	n := 1 + rt.U32n("thr", 2)
	if _, err := LoadRules([]*Rule{{Resource: "P", MetricType: Concurrency, Threshold: n}}); err != nil {
		rt.Assert(false, "LoadRules failed")
		return
	}
	node := stat.GetOrCreateResourceNode("P", base.ResTypeCommon)
	var pending, live []*base.EntryContext
	kmax := 0
	K := rt.Param("K")
	for k := 0; k < K; k++ {
		op := rt.Choice(3)
		switch {
		case op == 0 || (len(pending) == 0 && len(live) == 0):
			ctx := base.NewEmptyEntryContext()
			ctx.Resource = base.NewResourceWrapper("P", base.ResTypeCommon, base.Outbound)
			ctx.StatNode = node
			ctx.Input = &base.SentinelInput{BatchCount: 1}
			ctx.RuleCheckResult = base.NewTokenResultPass()
			r := DefaultSlot.Check(ctx)
			inPath := len(pending) + 1 // requests inside the admission path during this check
			if inPath > kmax {
				kmax = inPath
			}
			blocked := r != nil && r.IsBlocked()
			if len(pending) == 0 {
				rt.Assert(blocked == (uint64(len(live))+1 > uint64(n)), "alone in the admission path: admitted iff in-flight + 1 <= threshold")
			}
			if !blocked {
				pending = append(pending, ctx)
			}
			rt.Reach("c04p.check")
		case op == 1 && len(pending) > 0:
			i := rt.Choice(len(pending))
			ctx := pending[i]
			pending = append(pending[:i:i], pending[i+1:]...)
			stat.DefaultSlot.OnEntryPassed(ctx)
			live = append(live, ctx)
			rt.Reach("c04p.passed")
		case len(live) > 0:
			i := rt.Choice(len(live))
			ctx := live[i]
			live = append(live[:i:i], live[i+1:]...)
			stat.DefaultSlot.OnCompleted(ctx)
			rt.Reach("c04p.exit")
		}
		rt.Assert(int(node.CurrentConcurrency()) == len(live), "the gauge equals the entries that passed and have not exited")
		excess := kmax - 1
		if excess < 0 {
			excess = 0
		}
		rt.Assert(len(live)+len(pending) <= int(n)+excess, "with k requests simultaneously inside the admission path the in-flight count exceeds the threshold by at most k-1")
	}
	rt.Reach("c04p.done")
}
