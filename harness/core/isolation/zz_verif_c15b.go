package isolation

import (
	"github.com/alibaba/sentinel-golang/core/base"
	"github.com/alibaba/sentinel-golang/core/stat"
	rt "github.com/alibaba/sentinel-golang/zzverif/verifrt"
)

// C15(b) (isolation): a request racing with a rule update is decided entirely by the old or entirely
// by the new rule list of its resource; updating another resource never affects it. Two threads,
// context switches at every mutex operation.

func VerifC15Switch() {
	rt.SetClockMs(2000000000000)
	oldThr := []uint32{rt.U32n("o1", 8), rt.U32n("o2", 8)}
	newThr := []uint32{rt.U32n("n1", 8), rt.U32n("n2", 8), rt.U32n("n3", 8)}
	mk := func(res string, thr []uint32) []*Rule {
		var l []*Rule
		for _, t := range thr {
			l = append(l, &Rule{Resource: res, MetricType: Concurrency, Threshold: t})
		}
		return l
	}
	LoadRules(append(mk("A", oldThr), mk("B", []uint32{1})...))
	node := stat.GetOrCreateResourceNode("A", base.ResTypeCommon)
	cur := rt.U32n("cur", 8)
	rt.Poke(node, "BaseStatNode.concurrency", int32(cur))
	b := rt.U32n("batch", 8)
	otherOnly := rt.Bool("otherResource")
	var blocked bool
	rt.Spawn(func() {
		ctx := base.NewEmptyEntryContext()
		ctx.Resource = base.NewResourceWrapper("A", base.ResTypeCommon, base.Outbound)
		ctx.StatNode = node
		ctx.Input = &base.SentinelInput{BatchCount: b}
		ctx.RuleCheckResult = base.NewTokenResultPass()
		r := DefaultSlot.Check(ctx)
		blocked = r != nil && r.IsBlocked()
	})
	rt.Spawn(func() {
		if otherOnly {
			LoadRulesOfResource("B", mk("B", newThr))
		} else if rt.Bool("perResource") {
			LoadRulesOfResource("A", mk("A", newThr))
		} else {
			LoadRules(mk("A", newThr))
		}
	})
	rt.Join()
	rt.Reach("c15.switch")
	decide := func(thr []uint32) bool {
		for _, t := range thr {
			if t != 0 && uint64(cur)+uint64(b) > uint64(t) {
				return true
			}
		}
		return false
	}
	if otherOnly {
		rt.Assert(blocked == decide(oldThr), "updating the rules of one resource never affects a concurrent decision on another resource")
	} else {
		rt.Assert(blocked == decide(oldThr) || blocked == decide(newThr), "a request racing with a rule update is decided entirely by the old or entirely by the new rule list")
	}
}
