package system

import (
	"github.com/alibaba/sentinel-golang/core/base"
	"github.com/alibaba/sentinel-golang/core/stat"
	rt "github.com/alibaba/sentinel-golang/zzverif/verifrt"
)

// C15(b) (system): an inbound request racing with a whole-set rule update is decided entirely by the
// old or entirely by the new rule list. Two threads, context switches at every mutex operation.
// Rules of two metric types (concurrency, inbound QPS) with symbolic triggers, so that a verdict
// mixed from both lists differs from both pure verdicts for some values.

func VerifC15Switch() {
	rt.SetClockMs(2000000000000)
	in := stat.InboundNode()
	conc := int32(rt.U32n("conc", 3))
	rt.Poke(in, "BaseStatNode.concurrency", conc)
	pass := int64(rt.U32n("pass", 3))
	in.AddCount(base.MetricEventPass, pass)
	type vr struct {
		has  bool
		trig uint32
	}
	mk := func(tag string) (l []*Rule, c, q vr) {
		if rt.Bool(tag + "HasConc") {
			c = vr{true, rt.U32n(tag+"Conc", 3)}
			l = append(l, &Rule{MetricType: Concurrency, TriggerCount: float64(c.trig)})
		}
		if rt.Bool(tag + "HasQps") {
			q = vr{true, rt.U32n(tag+"Qps", 3)}
			l = append(l, &Rule{MetricType: InboundQPS, TriggerCount: float64(q.trig)})
		}
		return
	}
	oldL, oc, oq := mk("old")
	newL, nc, nq := mk("new")
	LoadRules(oldL)
	var blocked bool
	rt.Spawn(func() {
		ctx := base.NewEmptyEntryContext()
		ctx.Resource = base.NewResourceWrapper("in", base.ResTypeWeb, base.Inbound)
		ctx.RuleCheckResult = base.NewTokenResultPass()
		r := DefaultAdaptiveSlot.Check(ctx)
		blocked = r != nil && r.IsBlocked()
	})
	rt.Spawn(func() {
		LoadRules(newL)
	})
	rt.Join()
	rt.Reach("c15.switch")
	decide := func(c, q vr) bool {
		return (c.has && uint32(conc) >= c.trig) || (q.has && uint32(pass) >= q.trig)
	}
	rt.Assert(blocked == decide(oc, oq) || blocked == decide(nc, nq), "a request racing with a rule update is decided entirely by the old or entirely by the new rule list")
}
