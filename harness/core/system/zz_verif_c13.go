package system

import (
	rt "github.com/alibaba/sentinel-golang/zzverif/verifrt"
)

// C13 (system): only valid, latest-loaded rules are in force, grouped by metric type in order;
// reported == enforced; loading never panics; an identical reload reports "unchanged".

func verifMkRule() *Rule {
	if rt.Bool("nil") {
		return nil
	}
	r := &Rule{MetricType: MetricType(rt.U32("mt")), Strategy: AdaptiveStrategy(rt.I32("strategy"))}
	switch rt.Choice(4) {
	case 0:
		r.TriggerCount = -1
	case 1:
		r.TriggerCount = 0.5
	case 2:
		r.TriggerCount = 1.5
	default:
		r.TriggerCount = float64(rt.U32n("trig", 20))
	}
	return r
}

func verifMkList(n int) []*Rule {
	m := rt.Choice(n + 1)
	l := make([]*Rule, 0, m)
	for i := 0; i < m; i++ {
		l = append(l, verifMkRule())
	}
	return l
}

func verifCopyList(l []*Rule) []*Rule {
	if l == nil {
		return nil
	}
	c := make([]*Rule, 0, len(l))
	for _, r := range l {
		if r == nil {
			c = append(c, nil)
		} else {
			x := *r
			c = append(c, &x)
		}
	}
	return c
}

func verifNoPanic(f func()) (ok bool) {
	defer func() {
		if r := recover(); r != nil {
			ok = false
		}
	}()
	f()
	return true
}

func VerifC13() {
	rt.SetClockMs(10000000)
	L, N := rt.Param("L"), rt.Param("N")
	var ref []Rule
	for step := 0; step < L; step++ {
		if rt.Bool("clear") {
			rt.Assert(ClearRules() == nil, "ClearRules reports no error")
			ref = nil
		} else {
			l := verifMkList(N)
			snap := verifCopyList(l)
			var err error
			rt.Assert(verifNoPanic(func() { _, err = LoadRules(l) }), "LoadRules never panics")
			rt.Assert(err == nil, "LoadRules reports no error")
			ref = nil
			for _, r := range snap {
				if r != nil && verifIsValidSys(r) {
					ref = append(ref, *r)
				}
			}
			changed := true
			rt.Assert(verifNoPanic(func() { changed, _ = LoadRules(verifCopyList(snap)) }), "LoadRules never panics")
			rt.Assert(!changed, "an identical reload reports unchanged")
			rt.Reach("c13.load")
		}
		// enforced: what the slot reads, per metric type, in load order
		total := 0
		for mt := MetricType(0); mt < MetricTypeSize; mt++ {
			var want []Rule
			for _, r := range ref {
				if r.MetricType == mt {
					want = append(want, r)
				}
			}
			total += len(want)
			got := ruleMap[mt]
			rt.Assert(len(got) == len(want), "rules in force for a metric type are exactly the valid rules of the latest load")
			if len(got) == len(want) {
				for i := range want {
					rt.Assert(*got[i] == want[i], "enforced rules equal the latest valid rules, in order")
				}
			}
		}
		rt.Assert(len(GetRules()) == total && len(getRules()) == total, "GetRules reports exactly the enforced rules")
	}
	rt.Reach("c13.done")
}

// verifIsValidSys asks the validity check about a throw-away copy.
func verifIsValidSys(r *Rule) bool {
	c := *r
	return IsValidSystemRule(&c) == nil
}
