package system

import (
	"github.com/alibaba/sentinel-golang/core/base"
	rt "github.com/alibaba/sentinel-golang/zzverif/verifrt"
)

// C15 (system, static form): lock discipline of the rule manager and the adaptive slot.

func verifGuardSys() {
	ruleMapMux.Lock()
	rt.Guard(&ruleMap, ruleMapMux, "system.ruleMap (variable)")
	rt.GuardObj(ruleMap, ruleMapMux, "system.ruleMap (map object)")
	for _, rs := range ruleMap {
		rt.Freeze(rs, "a published per-type rule slice of system.ruleMap")
	}
	ruleMapMux.Unlock()
	updateRuleMux.Lock()
	rt.Guard(&currentRules, updateRuleMux, "system.currentRules (variable)")
	updateRuleMux.Unlock()
}

func VerifC15() {
	rt.SetClockMs(2000000000000)
	LoadRules([]*Rule{{MetricType: InboundQPS, TriggerCount: 10}, {MetricType: Concurrency, TriggerCount: 5}, {MetricType: InboundQPS, TriggerCount: 20}})
	for step := 0; step < 2; step++ {
		verifGuardSys()
		switch rt.Choice(5) {
		case 0:
			LoadRules([]*Rule{{MetricType: Load, TriggerCount: 3}})
		case 1:
			ClearRules()
		case 2:
			GetRules()
		case 3:
			getRules()
		case 4:
			ctx := base.NewEmptyEntryContext()
			ctx.Resource = base.NewResourceWrapper("in", base.ResTypeWeb, base.Inbound)
			ctx.RuleCheckResult = base.NewTokenResultPass()
			DefaultAdaptiveSlot.Check(ctx)
		}
		rt.Reach("c15.op")
		rt.Assert(rt.LockFree(ruleMapMux) && rt.LockFree(updateRuleMux), "every exported function releases the locks it took")
	}
}
