package system

import (
	"github.com/alibaba/sentinel-golang/core/base"
	"github.com/alibaba/sentinel-golang/core/stat"
	"github.com/alibaba/sentinel-golang/core/system_metric"
	rt "github.com/alibaba/sentinel-golang/zzverif/verifrt"
)

// C07 — system protection gates inbound traffic only, by the configured predicate (DESIGN §5 C07).
// Rule set: NR rules with symbolic metric type, strategy and trigger; load/cpu readings symbolic
// floats; inbound aggregate pre-state built through the node's real write API at one symbolic time.

func VerifC07() {
	t := rt.U64n("t0", 42)
	rt.Assume(t >= 2000000000000)
	rt.SetClockMs(t)
	nr := rt.Param("NR")
	bbrGrid := rt.Param("BBRGRID") // >0: concrete completion/rt pre-state so that the BBR capacity folds exactly
	type vr struct {
		mt       MetricType
		strategy AdaptiveStrategy
		trig     float64
	}
	var rules []*Rule
	var vrs []vr
	for i := 0; i < nr; i++ {
		mt := MetricType(rt.Choice(5))
		st := []AdaptiveStrategy{NoAdaptive, BBR}[rt.Choice(2)]
		var trig float64
		if mt == Load || mt == CpuUsage {
			trig = rt.F64("trig")
			rt.Assume(trig >= 0 && (mt == Load || trig <= 1))
		} else {
			trig = rt.F64Cmp("trig")
		}
		rules = append(rules, &Rule{MetricType: mt, Strategy: st, TriggerCount: trig})
		vrs = append(vrs, vr{mt, st, trig})
	}
	if _, err := LoadRules(rules); err != nil {
		rt.Assert(false, "LoadRules returned an error for valid rules")
		return
	}
	load, cpu := rt.F64("load"), rt.F64("cpu")
	rt.Assume(load >= 0 && cpu >= 0 && cpu <= 1)
	system_metric.SetSystemLoad(load)
	system_metric.SetSystemCpuUsage(cpu)
	// inbound aggregate: passes, completions, one response time sample, in-flight gauge
	in := stat.InboundNode()
	var nPass, nComp, rtv int64
	if bbrGrid > 0 {
		grid := [][3]int64{{0, 0, 0}, {5, 3, 40}, {50, 200, 7}, {1, 1, 1000}}
		g := grid[bbrGrid-1]
		nPass, nComp, rtv = g[0], g[1], g[2]
	} else {
		nPass, nComp, rtv = rt.I64n("pass", 20), rt.I64n("complete", 20), rt.I64n("rt", 12)
	}
	in.AddCount(base.MetricEventPass, nPass)
	if nComp > 0 {
		in.AddCount(base.MetricEventComplete, nComp)
		in.AddCount(base.MetricEventRt, rtv)
	}
	conc := rt.I32("conc")
	rt.Assume(conc >= 0 && conc < 1<<20)
	rt.Poke(in, "BaseStatNode.concurrency", conc)

	// outbound traffic is never gated
	octx := base.NewEmptyEntryContext()
	octx.Resource = base.NewResourceWrapper("o", base.ResTypeCommon, base.Outbound)
	octx.RuleCheckResult = base.NewTokenResultPass()
	rt.Assert(DefaultAdaptiveSlot.Check(octx) == nil, "system rules never block outbound traffic")

	ictx := base.NewEmptyEntryContext()
	ictx.Resource = base.NewResourceWrapper("i", base.ResTypeWeb, base.Inbound)
	ictx.RuleCheckResult = base.NewTokenResultPass()
	if rt.Bool("withInput") {
		// the verdict does not depend on how many tokens the request itself asks for
		ictx.Input = &base.SentinelInput{BatchCount: rt.U32n("batch", 10)}
	}
	res := DefaultAdaptiveSlot.Check(ictx)
	blocked := res != nil && res.IsBlocked()

	// reference predicate, from the statement
	qps := float64(nPass) / 1.0 // the default inbound view covers one second
	avgRt := float64(0)
	if nComp > 0 {
		avgRt = float64(rtv / nComp)
	}
	minRt := float64(base.DefaultStatisticMaxRt)
	if nComp > 0 {
		minRt = float64(rtv)
		if rtv < 1 {
			minRt = 1
		}
	}
	capacity := float64(nComp) * 2 / 1000 * 1000.0 * minRt / 1000.0 // peak completion rate (per bucket, scaled to a second) times minimum rt
	overCapacity := conc > 1 && float64(conc) > capacity
	violated := false
	for _, r := range vrs {
		switch r.mt {
		case InboundQPS:
			violated = violated || qps >= r.trig
		case Concurrency:
			violated = violated || float64(conc) >= r.trig
		case AvgRT:
			violated = violated || avgRt >= r.trig
		case Load:
			violated = violated || (load > r.trig && (r.strategy != BBR || overCapacity))
		case CpuUsage:
			violated = violated || (cpu > r.trig && (r.strategy != BBR || overCapacity))
		}
	}
	rt.Reach("c07.decided")
	rt.Assert(blocked == violated, "an inbound request is blocked iff at least one loaded system rule is violated")
	if blocked {
		rt.Assert(res.BlockError().BlockType() == base.BlockTypeSystemFlow, "rejected with a system block")
	}
}
