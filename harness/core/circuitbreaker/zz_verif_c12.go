package circuitbreaker

import (
	"errors"

	"github.com/alibaba/sentinel-golang/core/base"
	"github.com/alibaba/sentinel-golang/util"
	rt "github.com/alibaba/sentinel-golang/zzverif/verifrt"
)

// C12 — breaker transitions are atomic and probes exclusive under concurrency (DESIGN §5 C12).
// One error-count breaker on a one-bucket window; N threads, each one TryPass or one
// OnRequestComplete; context switches at every atomic access of the state word, the retry deadline
// and the probe counter; the clock read by the breaker is an ordered symbolic clock (reads are
// visible operations), the statistic structure reads a frozen time inside the current bucket.

type verifConcListener struct {
	out, in [3]int // per state: transitions leaving / entering it
	n       int
	badPrev bool
	openClk uint64 // clock read by the thread that opened the breaker (its deadline computation)
	opens   int
}

func (l *verifConcListener) note(prev, to State) {
	l.out[prev]++
	l.in[to]++
	l.n++
}
func (l *verifConcListener) OnTransformToClosed(prev State, rule Rule) { l.note(prev, Closed) }
func (l *verifConcListener) OnTransformToOpen(prev State, rule Rule, s interface{}) {
	l.note(prev, Open)
	l.opens++
	l.openClk = rt.LastClock()
}
func (l *verifConcListener) OnTransformToHalfOpen(prev State, rule Rule) { l.note(prev, HalfOpen) }

func VerifC12() {
	scen, n := rt.Param("SCEN"), rt.Param("N")
	base0 := uint64(2000000000500)
	rt.SetClockMs(base0)
	retry := 1 + rt.U32n("retry", 16)
	r := &Rule{Resource: "r", Strategy: ErrorCount, RetryTimeoutMs: retry, MinRequestAmount: 0, StatIntervalMs: 1000, Threshold: 1, ProbeNum: 0}
	cbi, err := cbGenFuncMap[ErrorCount](r, nil)
	if err != nil || cbi == nil {
		rt.Assert(false, "generator failed")
		return
	}
	cb := cbi.(*errorCountCircuitBreaker)
	lis := &verifConcListener{}
	stateChangeListeners = []StateChangeListener{lis}
	boom := errors.New("boom")
	s0 := Closed
	deadline := uint64(0)
	switch scen {
	case 1: // open, with a symbolic deadline
		s0 = Open
		deadline = base0 + uint64(rt.U32n("dl", 16))
		cb.state.set(Open)
		cb.nextRetryTimestampMs = deadline
	case 2: // half-open (a probe is in flight)
		s0 = HalfOpen
		cb.state.set(HalfOpen)
	}
	rt.SetFlag("clocklo", int(base0))
	rt.SetFlag("threadclock", 3)
	type res struct {
		isTry, passed bool
		clk           uint64
		failed        bool
	}
	rs := make([]res, n)
	// OBS=1: an observer reads the clock and then finds the breaker still closed: it opened no earlier than that reading
	obsClk, obsClosed := uint64(0), false
	if rt.Param("OBS") != 0 {
		rt.Spawn(func() {
			c := util.CurrentTimeMillis()
			if cb.CurrentState() == Closed {
				obsClk, obsClosed = c, true
			}
		})
	}
	for i := 0; i < n; i++ {
		i := i
		isTry := true
		failed := false
		switch scen {
		case 0: // closed, about to trip: thread 0 completes with an error, the others try to pass or complete
			if i == 0 {
				isTry, failed = false, true
			} else {
				isTry = rt.Bool("isTry")
				failed = rt.Bool("err")
			}
		case 1: // all try to pass
		case 2: // thread 0 completes the probe (symbolic outcome), the others complete as stragglers or try to pass
			if i == 0 {
				isTry, failed = false, rt.Bool("err")
			} else {
				isTry = rt.Bool("isTry")
				failed = rt.Bool("err")
			}
		}
		rs[i].isTry, rs[i].failed = isTry, failed
		rt.Spawn(func() {
			if isTry {
				ctx := base.NewEmptyEntryContext()
				ctx.Resource = base.NewResourceWrapper("r", base.ResTypeCommon, base.Outbound)
				ctx.SetEntry(base.NewSentinelEntry(ctx, ctx.Resource, nil))
				rs[i].passed = cb.TryPass(ctx)
				rs[i].clk = rt.LastClock()
				if !rs[i].passed && rt.Param("EXIT") != 0 {
					// what the slot and api.Entry do with a rejected request: mark it blocked and exit it at once
					ctx.RuleCheckResult = base.NewTokenResultBlocked(base.BlockTypeCircuitBreaking)
					ctx.Entry().Exit()
				}
			} else if failed {
				cb.OnRequestComplete(0, boom)
			} else {
				cb.OnRequestComplete(0, nil)
			}
		})
	}
	rt.Join()
	rt.Reach("c12.joined")
	sf := cb.CurrentState()
	// every transition is reported exactly once with its previous state: the reported transitions form a path s0 -> sf
	for st := State(0); st < 3; st++ {
		d := lis.out[st] - lis.in[st]
		want := 0
		if st == s0 {
			want++
		}
		if st == sf {
			want--
		}
		rt.Assert(d == want, "the reported transitions form a path from the initial to the final state (each performed once, reported once)")
	}
	// a request arriving after all callers have returned (no overlap with any transition in progress)
	if sf == Open && lis.opens > 0 {
		ctx := base.NewEmptyEntryContext()
		ctx.Resource = base.NewResourceWrapper("r", base.ResTypeCommon, base.Outbound)
		ctx.SetEntry(base.NewSentinelEntry(ctx, ctx.Resource, nil))
		late := cb.TryPass(ctx)
		rt.Reach("c12.late")
		if late {
			rt.Assert(rt.LastClock() >= lis.openClk+uint64(retry), "after the breaker opened, a later request is admitted only after a full retry timeout")
			if obsClosed {
				rt.Reach("c12.observed-closed")
				rt.Assert(rt.LastClock() >= obsClk+uint64(retry), "a later request is admitted only a full retry timeout after a moment at which the breaker was still seen closed")
			}
			// that request is the probe of a new half-open passage: whatever the racing callers left behind, it is the only one
			ctx2 := base.NewEmptyEntryContext()
			ctx2.Resource = base.NewResourceWrapper("r", base.ResTypeCommon, base.Outbound)
			ctx2.SetEntry(base.NewSentinelEntry(ctx2, ctx2.Resource, nil))
			rt.Reach("c12.next-passage")
			rt.Assert(!cb.TryPass(ctx2), "the next passage to half-open admits exactly one probe until it completes (ProbeNum 0), also after racing completions")
		}
	}
	probes := 0
	for i := 0; i < n; i++ {
		if rs[i].isTry && rs[i].passed {
			probes++
		}
	}
	switch scen {
	case 0:
		rt.Assert(lis.opens <= 1 || lis.n > lis.opens, "the trip is performed by exactly one caller")
		for i := 0; i < n; i++ {
			if rs[i].isTry && rs[i].passed && rs[i].clk != 0 && lis.opens > 0 {
				// the caller read the clock, i.e. it saw the breaker open: it may only probe a full timeout after the opening
				rt.AssertExcept(rs[i].clk >= lis.openClk+uint64(retry), "while open no request is admitted before a full retry timeout has elapsed since it opened", "D11", true)
			}
		}
	case 1:
		rt.Assert(probes <= 1, "each passage to half-open admits exactly one probe until it completes")
		if probes == 1 {
			rt.Reach("c12.probe-in-flight")
			rt.Assert(sf == HalfOpen && lis.n == 1, "while the admitted probe is in flight the breaker stays half-open; rejected callers change nothing and report nothing")
		}
		for i := 0; i < n; i++ {
			if rs[i].passed {
				rt.Assert(rs[i].clk >= deadline, "while open no request is admitted before the retry deadline")
			}
		}
	case 2:
		anyOK := false
		for i := 0; i < n; i++ {
			if !rs[i].isTry && !rs[i].failed {
				anyOK = true
			}
		}
		for i := 0; i < n; i++ {
			if rs[i].isTry && rs[i].passed {
				// a request may pass only after the breaker left half-open (closed by the probe, or re-opened and due again)
				rt.Assert(lis.n > 0, "a request admitted in this scenario follows a reported transition out of half-open")
				if !anyOK {
					// nothing can have closed the breaker: the request passed as the probe of a new half-open passage
					rt.Assert(lis.in[HalfOpen] > 0, "with no successful completion a request passes only as the probe of a new passage to half-open, which is reported")
				}
			}
		}
	}
}
