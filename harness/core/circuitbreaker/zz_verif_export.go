package circuitbreaker

// Accessors for harnesses in other packages.

func VerifBreakers(res string) []CircuitBreaker { return getBreakersOfResource(res) }

func VerifForceOpen(cb CircuitBreaker, deadline uint64) {
	b := cb.(*errorCountCircuitBreaker)
	b.state.set(Open)
	b.nextRetryTimestampMs = deadline
}

func VerifDeadline(cb CircuitBreaker) uint64 {
	return cb.(*errorCountCircuitBreaker).nextRetryTimestampMs
}
