package circuitbreaker

import (
	"github.com/alibaba/sentinel-golang/core/base"
	rt "github.com/alibaba/sentinel-golang/zzverif/verifrt"
)

// C15 (circuit breaker, static form): lock discipline of the rule manager and the slots.

func verifGuardCb() {
	updateMux.Lock()
	rt.Guard(&breakers, updateMux, "circuitbreaker.breakers (variable)")
	rt.GuardObj(breakers, updateMux, "circuitbreaker.breakers (map object)")
	rt.Guard(&breakerRules, updateMux, "circuitbreaker.breakerRules (variable)")
	rt.GuardObj(breakerRules, updateMux, "circuitbreaker.breakerRules (map object)")
	for _, cbs := range breakers {
		rt.Freeze(cbs, "a published per-resource breaker slice of circuitbreaker.breakers")
	}
	for _, rs := range breakerRules {
		rt.Freeze(rs, "a published per-resource rule slice of circuitbreaker.breakerRules")
	}
	updateMux.Unlock()
	updateRuleMux.Lock()
	rt.Guard(&currentRules, updateRuleMux, "circuitbreaker.currentRules (variable)")
	rt.GuardObj(currentRules, updateRuleMux, "circuitbreaker.currentRules (map object)")
	updateRuleMux.Unlock()
}

func VerifC15() {
	rt.SetClockMs(2000000000000)
	mk := func(res string, thr float64) *Rule {
		return &Rule{Resource: res, Strategy: ErrorCount, RetryTimeoutMs: 1000, MinRequestAmount: 1, StatIntervalMs: 1000, Threshold: thr}
	}
	LoadRules([]*Rule{mk("A", 1), mk("A", 2), mk("A", 3), mk("B", 4)})
	for step := 0; step < 2; step++ {
		verifGuardCb()
		switch rt.Choice(9) {
		case 0:
			LoadRules([]*Rule{mk("A", 1), mk("B", 9)})
		case 1:
			LoadRulesOfResource("A", []*Rule{mk("A", 1), mk("A", 3)})
		case 2:
			LoadRulesOfResource("A", []*Rule{mk("A", 7), mk("A", 3)})
		case 3:
			ClearRules()
		case 4:
			ClearRulesOfResource("A")
		case 5:
			GetRules()
			GetRulesOfResource("A")
		case 6:
			getBreakersOfResource("A")
		case 7:
			ctx := base.NewEmptyEntryContext()
			ctx.Resource = base.NewResourceWrapper("A", base.ResTypeCommon, base.Outbound)
			ctx.RuleCheckResult = base.NewTokenResultPass()
			ctx.SetEntry(base.NewSentinelEntry(ctx, ctx.Resource, nil))
			DefaultSlot.Check(ctx)
			DefaultMetricStatSlot.OnCompleted(ctx)
		case 8:
			LoadRulesOfResource("A", []*Rule{mk("A", 3), mk("A", 1)})
		}
		rt.Reach("c15.op")
		rt.Assert(rt.LockFree(updateMux) && rt.LockFree(updateRuleMux), "every exported function releases the locks it took")
	}
}
