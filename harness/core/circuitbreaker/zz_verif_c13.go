package circuitbreaker

import (
	rt "github.com/alibaba/sentinel-golang/zzverif/verifrt"
)

// C13 (circuit breaker): only valid, supported, latest-loaded rules are in force; reported ==
// enforced; loading never panics; an identical reload reports "unchanged".

var verifNames = []string{"", "A", "B"}

func verifMkRule(forceRes string) *Rule {
	res := forceRes
	if res == "" {
		res = verifNames[rt.Choice(3)]
	}
	if rt.Param("MODE") == 1 {
		switch rt.Choice(5) {
		case 0:
			return nil
		case 1: // valid error-count rule with symbolic parameters
			return &Rule{Resource: res, Strategy: ErrorCount, RetryTimeoutMs: 1 + rt.U32n("retry", 20), MinRequestAmount: rt.U64n("min", 10),
				StatIntervalMs: 1000, Threshold: float64(rt.U32n("thr", 10)), ProbeNum: rt.U64n("probe", 3)}
		case 2: // invalid: no retry timeout
			return &Rule{Resource: res, Strategy: ErrorCount, StatIntervalMs: 1000, Threshold: 1}
		case 3: // valid slow-ratio rule, two buckets
			return &Rule{Resource: res, Strategy: SlowRequestRatio, RetryTimeoutMs: 5, StatIntervalMs: 1000, StatSlidingWindowBucketCount: 2, MaxAllowedRtMs: rt.U64n("maxrt", 20), Threshold: 0.5}
		}
		// passes the validity check but has no built-in strategy
		return &Rule{Resource: res, Strategy: Strategy(9), RetryTimeoutMs: 5, StatIntervalMs: 1000, Threshold: 1}
	}
	if rt.Bool("nil") {
		return nil
	}
	return &Rule{Resource: res,
		Strategy:                     Strategy(rt.U32("strategy")),
		RetryTimeoutMs:               rt.U32("retry"),
		MinRequestAmount:             rt.U64("min"),
		StatIntervalMs:               []uint32{0, 1000}[rt.Choice(2)],
		StatSlidingWindowBucketCount: []uint32{0, 1, 2, 3}[rt.Choice(4)],
		MaxAllowedRtMs:               rt.U64("maxrt"),
		Threshold:                    []float64{-1, 0.5, 1, 7}[rt.Choice(4)],
		ProbeNum:                     rt.U64("probe"),
	}
}

func verifMkList(n int, forceRes string) []*Rule {
	m := rt.Choice(n + 1)
	l := make([]*Rule, 0, m)
	for i := 0; i < m; i++ {
		l = append(l, verifMkRule(forceRes))
	}
	return l
}

func verifCopyList(l []*Rule) []*Rule {
	if l == nil {
		return nil
	}
	c := make([]*Rule, 0, len(l))
	for _, r := range l {
		if r == nil {
			c = append(c, nil)
		} else {
			x := *r
			c = append(c, &x)
		}
	}
	return c
}

func verifSupported(r *Rule) bool { return r.Strategy <= ErrorCount }

func verifValidList(l []*Rule, res string) []Rule {
	var out []Rule
	for _, r := range l {
		if r != nil && r.Resource == res && verifIsValid(r) && verifSupported(r) {
			out = append(out, *r)
		}
	}
	return out
}

func verifNoPanic(f func()) (ok bool) {
	defer func() {
		if r := recover(); r != nil {
			ok = false
		}
	}()
	f()
	return true
}

func VerifC13() {
	rt.SetClockMs(10000000)
	L, N := rt.Param("L"), rt.Param("N")
	ref := map[string][]Rule{}
	for step := 0; step < L; step++ {
		switch rt.Choice(4) {
		case 0:
			l := verifMkList(N, "")
			snap := verifCopyList(l)
			var err error
			rt.Assert(verifNoPanic(func() { _, err = LoadRules(l) }), "LoadRules never panics")
			rt.Assert(err == nil, "LoadRules reports no error")
			ref = map[string][]Rule{}
			for _, n := range verifNames {
				if v := verifValidList(snap, n); len(v) > 0 {
					ref[n] = v
				}
			}
			changed := true
			rt.Assert(verifNoPanic(func() { changed, _ = LoadRules(verifCopyList(snap)) }), "LoadRules never panics")
			rt.Assert(!changed, "an identical whole-set reload reports unchanged")
			rt.Reach("c13.loadall")
		case 1:
			r0 := verifNames[1+rt.Choice(2)]
			l := verifMkList(N, r0)
			snap := verifCopyList(l)
			var err error
			rt.Assert(verifNoPanic(func() { _, err = LoadRulesOfResource(r0, l) }), "LoadRulesOfResource never panics")
			rt.Assert(err == nil, "LoadRulesOfResource reports no error")
			if v := verifValidList(snap, r0); len(v) > 0 {
				ref[r0] = v
			} else {
				delete(ref, r0)
			}
			if len(l) > 0 {
				changed := true
				rt.Assert(verifNoPanic(func() { changed, _ = LoadRulesOfResource(r0, verifCopyList(snap)) }), "LoadRulesOfResource never panics")
				rt.Assert(!changed, "an identical per-resource reload reports unchanged")
			}
			rt.Reach("c13.loadres")
		case 2:
			rt.Assert(ClearRules() == nil, "ClearRules reports no error")
			ref = map[string][]Rule{}
		case 3:
			r0 := verifNames[1+rt.Choice(2)]
			rt.Assert(ClearRulesOfResource(r0) == nil, "ClearRulesOfResource reports no error")
			delete(ref, r0)
		}
		total := 0
		for _, n := range verifNames {
			want := ref[n]
			total += len(want)
			pub := GetRulesOfResource(n)
			cbs := getBreakersOfResource(n)
			rt.Assert(len(cbs) == len(want), "breakers in force for a resource are exactly the valid rules of its latest load")
			rt.Assert(len(pub) == len(want), "rules reported for a resource are exactly those in force")
			if len(pub) == len(want) && len(cbs) == len(want) {
				for i := range want {
					rt.Assert(pub[i] == want[i] && *cbs[i].BoundRule() == want[i], "enforced and reported rules equal the latest valid rules, in order")
				}
			}
		}
		rt.Assert(len(GetRules()) == total, "GetRules reports exactly the enforced rules")
	}
	rt.Reach("c13.done")
}

// verifIsValid asks the module's validity check about a throw-away copy: the reference must not depend on
// (or be changed by) anything the check does to the object it is given.
func verifIsValid(r *Rule) bool {
	c := *r
	return IsValidRule(&c) == nil
}

// VerifC13FieldDiff: a reload whose rule differs from the rule in force in exactly ONE field that matters to
// its strategy puts the new rule in force (the breaker deciding afterwards is bound to the new values); a reload
// that differs in nothing reports "unchanged". Every field of the base rule is populated so that each edit stays valid.
func VerifC13FieldDiff() {
	rt.SetClockMs(10000000)
	base := &Rule{Resource: "A", Strategy: []Strategy{SlowRequestRatio, ErrorRatio, ErrorCount}[rt.Choice(3)], RetryTimeoutMs: 5, MinRequestAmount: 3,
		StatIntervalMs: 1000, StatSlidingWindowBucketCount: 2, MaxAllowedRtMs: 20, Threshold: 0.5, ProbeNum: 2}
	snap := *base
	if _, err := LoadRules([]*Rule{base}); err != nil {
		rt.Assert(false, "initial load failed")
		return
	}
	nr := snap
	d := 1 + rt.U32n("delta", 3)
	switch rt.Choice(9) {
	case 0: // no edit at all
	case 1:
		nr.Strategy = (nr.Strategy + 1) % 3
	case 2:
		nr.RetryTimeoutMs += d
	case 3:
		nr.MinRequestAmount += uint64(d)
	case 4:
		nr.StatIntervalMs += 1000 * d
	case 5:
		nr.StatSlidingWindowBucketCount = []uint32{1, 4, 5}[rt.Choice(3)]
	case 6:
		if nr.Strategy != SlowRequestRatio {
			return // the field is not read by the other strategies
		}
		nr.MaxAllowedRtMs += uint64(d)
	case 7:
		nr.Threshold = []float64{0.25, 0.75, 1}[rt.Choice(3)]
	case 8:
		nr.ProbeNum += uint64(d)
	}
	same := nr == snap
	if !verifIsValid(&nr) {
		rt.Assert(false, "a single-field edit of the populated base rule stays valid")
		return
	}
	want := nr
	arg := nr
	changed := false
	if rt.Bool("perResource") {
		changed, _ = LoadRulesOfResource("A", []*Rule{&arg})
	} else {
		changed, _ = LoadRules([]*Rule{&arg})
	}
	rt.Assert(changed == !same, "a reload reports a change exactly when a field differs")
	pub, cbs := GetRulesOfResource("A"), getBreakersOfResource("A")
	rt.Reach("c13.fielddiff")
	if len(pub) != 1 || len(cbs) != 1 {
		rt.Assert(false, "one rule and one breaker in force after the reload")
		return
	}
	rt.Assert(pub[0] == want && *cbs[0].BoundRule() == want, "after a reload that edits one field the enforced breaker is bound to the new values")
}
