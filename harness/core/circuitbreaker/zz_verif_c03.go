package circuitbreaker

import (
	"errors"

	"github.com/alibaba/sentinel-golang/core/base"
	rt "github.com/alibaba/sentinel-golang/zzverif/verifrt"
)

// C03 — the circuit breaker trips, blocks and recovers exactly as specified (DESIGN §5 C03, B.2).
// Bounded histories of TryPass / OnRequestComplete at symbolic times against a three-state reference
// machine fed by reference window counts.

type verifListener struct {
	n       int
	illegal bool
	cur     State
}

func (l *verifListener) note(prev, to State) {
	if prev != l.cur {
		l.illegal = true
	}
	l.cur = to
	l.n++
}
func (l *verifListener) OnTransformToClosed(prev State, rule Rule)              { l.note(prev, Closed) }
func (l *verifListener) OnTransformToOpen(prev State, rule Rule, s interface{}) { l.note(prev, Open) }
func (l *verifListener) OnTransformToHalfOpen(prev State, rule Rule)            { l.note(prev, HalfOpen) }

type verifCompletion struct {
	t   uint64
	bad bool
}

var verifRatios = []float64{0, 0.3, 0.5, 1}

// verifTrips: the strategy's trip predicate on reference window counts (ratio strategies use the
// float64 quotient, as the rule's threshold is a float64 ratio; ErrorCount thresholds are integral).
func verifTrips(strategy Strategy, bad, total uint64, ratioThr float64, countThr uint64) bool {
	if strategy == ErrorCount {
		return bad >= countThr
	}
	return float64(bad)/float64(total) >= ratioThr
}

func VerifC03Hist() {
	strategy := Strategy(rt.Param("STRAT"))
	B, I, K := uint32(rt.Param("B")), uint32(rt.Param("I")), rt.Param("K")
	bl := uint64(I / B)
	retry := 1 + rt.U32n("retry", 20)
	minReq := rt.U64n("min", 3)
	probe := rt.U64n("probe", 2)
	maxRt := rt.U64n("maxrt", 20)
	ratioThr := verifRatios[rt.Param("THR")]
	countThr := uint64(0)
	r := &Rule{Resource: "r", Strategy: strategy, RetryTimeoutMs: retry, MinRequestAmount: minReq, StatIntervalMs: I,
		StatSlidingWindowBucketCount: B, MaxAllowedRtMs: maxRt, ProbeNum: probe, Threshold: ratioThr}
	if strategy == ErrorCount {
		countThr = 1 + rt.U64n("cthr", 2)
		r.Threshold = float64(countThr)
	}
	t := rt.U64n("t0", 50)
	rt.Assume(t >= 1000000)
	rt.SetClockMs(t)
	cb, err := cbGenFuncMap[strategy](r, nil)
	if err != nil || cb == nil {
		rt.Assert(false, "the built-in generator builds a breaker for a valid rule")
		return
	}
	rt.Assert(IsValidRule(r) == nil, "the harness rule is valid")
	lis := &verifListener{cur: Closed}
	stateChangeListeners = []StateChangeListener{lis}
	ctx := base.NewEmptyEntryContext()
	ctx.Resource = base.NewResourceWrapper("r", base.ResTypeCommon, base.Outbound)
	ctx.SetEntry(base.NewSentinelEntry(ctx, ctx.Resource, nil))
	boom := errors.New("boom")

	// reference machine
	refS, refR, refP, refN := Closed, uint64(0), uint64(0), 0
	var comps []verifCompletion
	// one operation against breaker and reference machine
	step := func(nt uint64, isTry, failed bool, rtt uint64) {
		t = nt
		rt.SetClockMs(t)
		if isTry {
			got := cb.TryPass(ctx)
			want := false
			switch refS {
			case Closed:
				want = true
			case Open:
				if t >= refR {
					refS, want = HalfOpen, true
					refN++
				}
			case HalfOpen:
				want = probe > 0
			}
			rt.Reach("c03.trypass")
			rt.Assert(got == want, "TryPass: closed admits, open rejects until the retry timeout has elapsed then admits one probe, half-open admits only configured probes")
		} else {
			var e error
			if failed {
				e = boom
			}
			cb.OnRequestComplete(rtt, e)
			bad := failed
			if strategy == SlowRequestRatio {
				bad = rtt > maxRt
			}
			comps = append(comps, verifCompletion{t, bad})
			var nbad, ntot uint64
			for _, c := range comps {
				if c.t/bl*bl <= t/bl*bl && t/bl*bl-c.t/bl*bl < uint64(I) {
					ntot++
					if c.bad {
						nbad++
					}
				}
			}
			switch refS {
			case HalfOpen:
				if bad {
					refS, refR, refP = Open, t+uint64(retry), 0
					refN++
				} else {
					refP++
					if probe == 0 || refP >= probe {
						refS, refP = Closed, 0
						comps = comps[:0] // closing clears the statistics
						refN++
					}
				}
			case Closed:
				if ntot >= minReq && verifTrips(strategy, nbad, ntot, ratioThr, countThr) {
					refS, refR = Open, t+uint64(retry)
					refN++
				}
			}
			rt.Reach("c03.complete")
		}
		rt.Assert(cb.CurrentState() == refS, "state agrees with the three-state reference machine")
		rt.Assert(lis.n == refN && !lis.illegal, "listeners observe exactly the reference transitions, each once, as a legal path from Closed")
	}
	if rt.Param("PRE") != 0 {
		// forced prefix: one whole round (trip, retry timeout, probes until closed); the symbolic history starts in the second round
		for i := 0; i < 4 && refS != Open; i++ {
			step(t, false, true, maxRt+1)
		}
		if refS != Open {
			return
		}
		step(refR+rt.U64n("late", 3), true, false, 0)
		for i := 0; i < 3 && refS != Closed; i++ {
			step(t, false, false, 0)
		}
		if refS != Closed {
			return
		}
		rt.Reach("c03.second-round")
	}
	for k := 0; k < K; k++ {
		nt := rt.U64n("t", 50)
		rt.Assume(nt >= t)
		isTry := rt.Bool("isTryPass")
		failed, rtt := false, uint64(0)
		if !isTry {
			failed, rtt = rt.Bool("err"), rt.U64n("rt", 21)
		}
		step(nt, isTry, failed, rtt)
	}
	rt.Reach("c03.done")
}

// VerifC03Close: closing clears the statistics of the whole window. Failures trip the breaker in one
// bucket of a multi-bucket window, the probe succeeds (possibly in a later bucket of the same window),
// then healthy completions follow: the breaker must stay closed.
func VerifC03Close() {
	strategy := Strategy(rt.Choice(3))
	B := uint32(rt.Param("B"))
	I := B * 500
	retry := 1 + rt.U32n("retry", 8)
	r := &Rule{Resource: "r", Strategy: strategy, RetryTimeoutMs: retry, MinRequestAmount: 1, StatIntervalMs: I,
		StatSlidingWindowBucketCount: B, MaxAllowedRtMs: 10, ProbeNum: 0, Threshold: 0.5}
	if strategy == ErrorCount {
		r.Threshold = 2
	}
	t := uint64(2000000000000) + rt.U64n("t0", 9)
	rt.SetClockMs(t)
	cb, err := cbGenFuncMap[strategy](r, nil)
	if err != nil || cb == nil {
		rt.Assert(false, "the built-in generator builds a breaker for a valid rule")
		return
	}
	stateChangeListeners = nil
	boom := errors.New("boom")
	bad := func() {
		if strategy == SlowRequestRatio {
			cb.OnRequestComplete(1000, nil)
		} else {
			cb.OnRequestComplete(0, boom)
		}
	}
	bad()
	bad()
	if cb.CurrentState() != Open {
		rt.Assert(false, "two failing completions trip the breaker of the harness rule")
		return
	}
	t += uint64(retry) + rt.U64n("wait", 9) // the probe may fall into a later bucket of the same window
	rt.SetClockMs(t)
	ctx := base.NewEmptyEntryContext()
	ctx.Resource = base.NewResourceWrapper("r", base.ResTypeCommon, base.Outbound)
	ctx.SetEntry(base.NewSentinelEntry(ctx, ctx.Resource, nil))
	if !cb.TryPass(ctx) {
		rt.Assert(false, "after the retry timeout one probe is admitted")
		return
	}
	cb.OnRequestComplete(0, nil)
	rt.Reach("c03.closed")
	rt.Assert(cb.CurrentState() == Closed, "a successful probe closes the breaker")
	t += rt.U64n("later", 9)
	rt.SetClockMs(t)
	cb.OnRequestComplete(0, nil)
	rt.Assert(cb.CurrentState() == Closed, "closing cleared the statistics of the whole window: a healthy completion afterwards does not re-open the breaker")
}

// verifReentrant: a listener that sends a request of its own to the breaker while it is being told of
// the transition to Open (listeners run synchronously inside the transition).
type verifReentrant struct {
	cb       CircuitBreaker
	ctx      *base.EntryContext
	opens    int
	admitted int
}

func (l *verifReentrant) OnTransformToClosed(prev State, rule Rule) {}
func (l *verifReentrant) OnTransformToOpen(prev State, rule Rule, s interface{}) {
	l.opens++
	if l.cb.TryPass(l.ctx) {
		l.admitted++
	}
}
func (l *verifReentrant) OnTransformToHalfOpen(prev State, rule Rule) {}

// VerifC03Listener: while open every request is rejected until the retry timeout has elapsed — also a
// request made from a state-change listener during the very transition to Open (from Closed and from
// HalfOpen), for all three strategies.
func VerifC03Listener() {
	strategy := Strategy(rt.Choice(3))
	retry := 1 + rt.U32n("retry", 8)
	r := &Rule{Resource: "r", Strategy: strategy, RetryTimeoutMs: retry, MinRequestAmount: 1, StatIntervalMs: 1000,
		StatSlidingWindowBucketCount: 1, MaxAllowedRtMs: 10, ProbeNum: 0, Threshold: 0.5}
	if strategy == ErrorCount {
		r.Threshold = 1
	}
	t := uint64(2000000000000) + rt.U64n("t0", 9)
	rt.SetClockMs(t)
	cb, err := cbGenFuncMap[strategy](r, nil)
	if err != nil || cb == nil {
		rt.Assert(false, "the built-in generator builds a breaker for a valid rule")
		return
	}
	ctx := base.NewEmptyEntryContext()
	ctx.Resource = base.NewResourceWrapper("r", base.ResTypeCommon, base.Outbound)
	ctx.SetEntry(base.NewSentinelEntry(ctx, ctx.Resource, nil))
	lis := &verifReentrant{cb: cb, ctx: ctx}
	stateChangeListeners = []StateChangeListener{lis}
	boom := errors.New("boom")
	bad := func() {
		if strategy == SlowRequestRatio {
			cb.OnRequestComplete(1000, nil)
		} else {
			cb.OnRequestComplete(0, boom)
		}
	}
	bad()
	rt.Reach("c03.listener-open")
	rt.Assert(cb.CurrentState() == Open && lis.opens == 1, "one failing completion trips the breaker of the harness rule")
	rt.Assert(lis.admitted == 0, "a request made while the listeners are told of the transition to Open is rejected (the retry timeout has not elapsed)")
	// second round: the retry timeout elapses, the probe fails, the breaker re-opens
	t += uint64(retry) + rt.U64n("wait", 9)
	rt.SetClockMs(t)
	if !cb.TryPass(ctx) {
		rt.Assert(false, "after the retry timeout one probe is admitted")
		return
	}
	bad()
	rt.Assert(cb.CurrentState() == Open && lis.opens == 2, "a failed probe re-opens the breaker")
	rt.Assert(lis.admitted == 0, "a request made while the listeners are told of the re-opening is rejected for a full retry timeout")
	stateChangeListeners = nil
}
