package flow

import (
	"sync/atomic"

	"github.com/alibaba/sentinel-golang/core/base"
	rt "github.com/alibaba/sentinel-golang/zzverif/verifrt"
)

// C10 — throttling flow rules pace admitted requests and bound queueing (DESIGN §5 C10, B.3).

// grid of (batch, threshold, statIntervalMs): the interval ceil(batch/threshold*intervalNs) folds to a
// concrete number of nanoseconds for each point
var verifC10Grid = []struct {
	b   uint32
	thr float64
	ms  uint32
}{{1, 10, 1000}, {3, 7, 1000}, {1, 1, 1000}, {2, 1000, 500}, {1, 0.75, 0}, {5, 5.5, 2000},
	// a huge batch over a long statistic interval: batch * interval (ns) does not fit 63 bits
	{4000000000, 4200000000, 10000}}

func verifIntervalOf(g int) int64 {
	// measured through the real code: from a far future schedule the add path moves it by exactly one interval
	p := verifC10Grid[g]
	c := NewThrottlingChecker(nil, 0, p.ms)
	c.maxQueueingTimeNs = 1 << 62
	c.lastPassedTime = 1 << 40
	rt.SetClockNs(1 << 40)
	c.DoCheck(nil, p.b, p.thr)
	return c.lastPassedTime - 1<<40
}

// VerifC10Seq: K sequential calls at symbolic non-decreasing nanosecond times from a symbolic schedule.
func VerifC10Seq() {
	g := rt.Param("GRID")
	p := verifC10Grid[g]
	if float64(p.b) > p.thr {
		c := NewThrottlingChecker(nil, 0, p.ms)
		rt.SetClockNs(rt.U64n("t", 60))
		r := c.DoCheck(nil, p.b, p.thr)
		rt.Reach("c10.seq")
		rt.Assert(r != nil && r.IsBlocked(), "a batch larger than the threshold is rejected")
		return
	}
	iv := verifIntervalOf(g)
	rt.Assert(iv >= 1 && iv <= int64(1000000*uint64(map[bool]uint32{true: 1000, false: p.ms}[p.ms == 0])), "the pacing interval is positive and at most the statistic interval")
	ivNs := float64(1000000 * uint64(map[bool]uint32{true: 1000, false: p.ms}[p.ms == 0]))
	rt.Assert(float64(iv) >= float64(p.b)/p.thr*ivNs && float64(iv) <= float64(p.b)/p.thr*ivNs+1, "the pacing interval is at least batch/threshold of the statistic interval, and less than a nanosecond more")
	maxq := int64(rt.U64n("maxq", 40))
	last := int64(rt.U64n("last", 60))
	c := NewThrottlingChecker(nil, 0, p.ms)
	c.maxQueueingTimeNs = maxq
	c.lastPassedTime = last
	K := rt.Param("K")
	t := int64(0)
	prevPass := last
	havePrev := last > 0
	for k := 0; k < K; k++ {
		nt := int64(rt.U64n("t", 60))
		rt.Assume(nt >= t)
		t = nt
		rt.SetClockNs(uint64(t))
		L := c.lastPassedTime
		r := c.DoCheck(nil, p.b, p.thr)
		rt.Reach("c10.seq")
		switch {
		case r == nil: // admitted, no wait
			rt.Assert(L+iv <= t, "admitted without waiting only when the schedule allows it")
			rt.Assert(c.lastPassedTime == t, "the schedule records the pass time (idle time is not banked)")
			if havePrev {
				rt.Assert(t-prevPass >= iv, "consecutive pass times are at least one interval apart")
			}
			prevPass, havePrev = t, true
		case r.Status() == base.ResultStatusShouldWait:
			w := int64(r.NanosToWait())
			rt.Assert(w >= 0 && w <= maxq, "no admitted request is asked to wait longer than the maximum queueing time")
			pass := t + w
			rt.Assert(pass == L+iv && c.lastPassedTime == pass, "a queued request is scheduled exactly one interval after the previous pass time")
			if havePrev {
				rt.Assert(pass-prevPass >= iv, "consecutive pass times are at least one interval apart")
			}
			prevPass, havePrev = pass, true
		default:
			rt.Assert(r.IsBlocked(), "the result is pass, wait or blocked")
			rt.Assert(L+iv-t > maxq, "rejected only when honouring the spacing would exceed the maximum queueing time")
			rt.Assert(c.lastPassedTime == L, "a rejected request does not consume a slot")
		}
	}
}

// VerifC10Lemma: FP kernel of the interval, threshold and batch symbolic: 0 < b <= T finite => 0 <= interval <= statInterval.
func VerifC10Lemma() {
	T := rt.F64("T")
	b := rt.U32n("b", 20)
	rt.Assume(b >= 1 && rt.IsFinite(T) && T > 0 && float64(b) <= T)
	c := NewThrottlingChecker(nil, 0, 1000)
	c.maxQueueingTimeNs = 1 << 62
	c.lastPassedTime = 1 << 40
	rt.SetClockNs(1 << 40)
	r := c.DoCheck(nil, b, T)
	iv := c.lastPassedTime - 1<<40
	rt.Reach("c10.lemma")
	rt.Assert(r != nil && r.Status() == base.ResultStatusShouldWait, "queued behind a far schedule")
	rt.Assert(iv >= 0 && iv <= 1000000000, "0 <= interval <= statistic interval for every finite threshold >= batch")
}

type verifRes10 struct {
	admitted bool
	pass     int64
	wait     int64
	now      int64
}

// VerifC10Conc: N concurrent callers, one DoCheck each, context switches at every atomic access.
// FROZEN=1: all callers read the same clock value; FROZEN=0: each caller reads an arbitrary clock value
// once, before its first shared access (exact: any assignment is realised by some order of the reads).
func VerifC10Conc() {
	g := rt.Param("GRID")
	p := verifC10Grid[g]
	iv := verifIntervalOf(g)
	n := rt.Param("N")
	frozen := rt.Param("FROZEN") != 0
	maxq := int64(rt.U64n("maxq", 40))
	last := int64(rt.U64n("last", 59))
	c := NewThrottlingChecker(nil, 0, p.ms)
	c.maxQueueingTimeNs = maxq
	c.lastPassedTime = last
	res := make([]verifRes10, n)
	if frozen {
		rt.SetClockNs(rt.U64n("now", 59))
	} else {
		rt.SetFlag("threadclock", 1)
	}
	for i := 0; i < n; i++ {
		i := i
		rt.Spawn(func() {
			r := c.DoCheck(nil, p.b, p.thr)
			var now int64
			if frozen {
				now = int64(rt.FrozenClockNs())
			} else {
				now = int64(rt.LastClock())
			}
			res[i].now = now
			if r == nil {
				res[i] = verifRes10{admitted: true, pass: now, now: now}
			} else if r.Status() == base.ResultStatusShouldWait {
				w := int64(r.NanosToWait())
				res[i] = verifRes10{admitted: true, pass: now + w, wait: w, now: now}
			}
		})
	}
	rt.Join()
	rt.Reach("c10.joined")
	differ := false
	for i := 1; i < n; i++ {
		if res[i].now != res[0].now {
			differ = true
		}
	}
	if n == 2 {
		// a request is rejected only when honouring the spacing would exceed the limit: a caller that arrives a full
		// interval after the last pass is admitted when the only other caller is one that has to be rejected
		// (alone it would have to wait longer than the limit), whatever the interleaving
		for i := 0; i < 2; i++ {
			o := 1 - i
			dueI := res[i].now >= last+iv
			rejO := res[o].now < last+iv && last+iv-res[o].now > maxq
			if dueI && rejO {
				rt.Reach("c10.due-vs-rejected")
				rt.Assert(res[i].admitted, "a request that is due is admitted although a concurrent request has to be rejected")
			}
		}
	}
	for i := 0; i < n; i++ {
		if res[i].admitted {
			rt.Assert(res[i].wait >= 0 && res[i].wait <= maxq, "no admitted request is asked to wait longer than the maximum queueing time")
		}
		for j := i + 1; j < n; j++ {
			if res[i].admitted && res[j].admitted {
				d := res[i].pass - res[j].pass
				if d < 0 {
					d = -d
				}
				rt.AssertExcept(d >= iv, "admitted pass times are at least one interval apart", "D20", n >= 3 && differ)
			}
		}
	}
}

// VerifC10Mid: the add/rollback race from a reachable mid-state: one earlier caller is suspended between
// its add and its rollback (its +interval is already in the schedule); two fresh, non-stale callers race
// with that rollback.
func VerifC10Mid() {
	g := rt.Param("GRID")
	p := verifC10Grid[g]
	iv := verifIntervalOf(g)
	maxq := int64(rt.U64n("maxq", 40))
	l0 := int64(rt.U64n("last", 58))
	c := NewThrottlingChecker(nil, 0, p.ms)
	c.maxQueueingTimeNs = maxq
	c.lastPassedTime = l0 + iv
	rt.SetFlag("threadclock", 1)
	var res [2]verifRes10
	rt.Spawn(func() { atomic.AddInt64(&c.lastPassedTime, -iv) }) // the suspended caller's remaining step
	for i := 0; i < 2; i++ {
		i := i
		rt.Spawn(func() {
			r := c.DoCheck(nil, p.b, p.thr)
			now := int64(rt.LastClock())
			rt.Assume(now >= l0+iv) // not stale with respect to the schedule they find (isolates this race from D20)
			if r == nil {
				res[i] = verifRes10{admitted: true, pass: now}
			} else if r.Status() == base.ResultStatusShouldWait {
				w := int64(r.NanosToWait())
				res[i] = verifRes10{admitted: true, pass: now + w, wait: w}
			}
		})
	}
	rt.Join()
	rt.Reach("c10.mid")
	if res[0].admitted && res[1].admitted {
		d := res[0].pass - res[1].pass
		if d < 0 {
			d = -d
		}
		rt.AssertExcept(d >= iv, "admitted pass times are at least one interval apart", "D10", true)
	}
}

// VerifC10Ctor: the checker works with exactly the configured queueing limit and statistic interval
// (every uint32 millisecond value, no wrap-around in the conversion to nanoseconds).
func VerifC10Ctor() {
	t, s := rt.U32("timeoutMs"), rt.U32("statMs")
	c := NewThrottlingChecker(nil, t, s)
	rt.Reach("c10.ctor")
	rt.Assert(c.maxQueueingTimeNs == int64(t)*1000000, "the maximum queueing time in force is the configured one")
	wantStat := int64(s) * 1000000
	if s == 0 {
		wantStat = 1000000000
	}
	rt.Assert(c.statIntervalNs == wantStat, "the statistic interval in force is the configured one (1 s when unset)")
}
