package flow

import (
	"github.com/alibaba/sentinel-golang/core/base"
	"github.com/alibaba/sentinel-golang/core/stat"
	"github.com/alibaba/sentinel-golang/core/system_metric"
	rt "github.com/alibaba/sentinel-golang/zzverif/verifrt"
)

// C11 — adaptive thresholds stay inside their configured envelope (DESIGN §5 C11). Rule parameters
// come from a grid (the FP chains are beyond every back end with symbolic parameters, §3.2);
// the runtime state (memory reading, stored tokens, previous QPS, times) is symbolic.

var verifMemGrid = []Rule{
	{LowMemUsageThreshold: 1000, HighMemUsageThreshold: 100, MemLowWaterMarkBytes: 1024, MemHighWaterMarkBytes: 2048},
	{LowMemUsageThreshold: 2, HighMemUsageThreshold: 1, MemLowWaterMarkBytes: 1, MemHighWaterMarkBytes: 2},
	{LowMemUsageThreshold: 1 << 40, HighMemUsageThreshold: 1, MemLowWaterMarkBytes: 1 << 20, MemHighWaterMarkBytes: 1 << 36},
	{LowMemUsageThreshold: 7, HighMemUsageThreshold: 3, MemLowWaterMarkBytes: 1000, MemHighWaterMarkBytes: 5096},
	{LowMemUsageThreshold: 1000000, HighMemUsageThreshold: 999999, MemLowWaterMarkBytes: 1 << 30, MemHighWaterMarkBytes: 1<<30 + 3},
}

func VerifC11Mem() {
	g := verifMemGrid[rt.Param("GRID")]
	g.Resource, g.TokenCalculateStrategy, g.ControlBehavior = "M", MemoryAdaptive, Reject
	system_metric.TotalMemorySize = 1 << 62
	rt.Assert(IsValidRule(&g) == nil, "the grid rule is valid")
	c := NewMemoryAdaptiveTrafficShapingCalculator(nil, &g)
	mem := rt.I64n("mem", 50)
	system_metric.SetSystemMemoryUsage(mem)
	thr := c.CalculateAllowedTokens(1, 0)
	rt.Reach("c11.mem")
	rt.Assert(rt.IsFinite(thr) && thr >= 0, "the effective threshold is a finite non-negative number")
	if mem <= g.MemLowWaterMarkBytes {
		rt.Assert(thr == float64(g.LowMemUsageThreshold), "at or below the low water mark the threshold is the low-memory threshold")
	} else if mem >= g.MemHighWaterMarkBytes {
		rt.Assert(thr == float64(g.HighMemUsageThreshold), "at or above the high water mark the threshold is the high-memory threshold")
	} else {
		rt.Assert(thr >= float64(g.HighMemUsageThreshold) && thr <= float64(g.LowMemUsageThreshold), "between the water marks the threshold lies between the two thresholds")
	}
	// monotone: more memory in use never raises the threshold
	if rt.Param("MONO") != 0 {
		mem2 := rt.I64n("mem2", 50)
		rt.Assume(mem2 >= mem)
		system_metric.SetSystemMemoryUsage(mem2)
		thr2 := c.CalculateAllowedTokens(1, 0)
		rt.Reach("c11.mono")
		rt.Assert(thr2 <= thr, "the effective threshold is monotonically non-increasing in the memory usage")
	}
}

type verifQpsStat struct{ prev float64 }

func (s *verifQpsStat) GetQPS(base.MetricEvent) float64         { return s.prev }
func (s *verifQpsStat) GetPreviousQPS(base.MetricEvent) float64 { return s.prev }
func (s *verifQpsStat) GetSum(base.MetricEvent) int64           { return 0 }
func (s *verifQpsStat) MinRT() float64                          { return 0 }
func (s *verifQpsStat) AvgRT() float64                          { return 0 }

// (threshold, warm-up period s, cold factor)
var verifWarmGrid = []struct {
	thr    float64
	period uint32
	cold   uint32
}{{10, 10, 3}, {100, 5, 3}, {1, 1, 3}, {0.5, 10, 3}, {1000, 60, 10}, {3, 2, 2}, {20, 3, 0}, {7.5, 4, 5}, {1, 10, 3}, {2, 10, 3}, {3, 10, 3}}

func VerifC11Warm() {
	g := verifWarmGrid[rt.Param("GRID")]
	r := &Rule{Resource: "W", TokenCalculateStrategy: WarmUp, ControlBehavior: Reject, Threshold: g.thr, WarmUpPeriodSec: g.period, WarmUpColdFactor: g.cold}
	rt.Assert(IsValidRule(r) == nil, "the grid rule is valid")
	st := &verifQpsStat{}
	tsc := &TrafficShapingController{rule: r, boundStat: standaloneStatistic{readOnlyMetric: st}}
	c := NewWarmUpTrafficShapingCalculator(tsc, r).(*WarmUpTrafficShapingCalculator)
	cold := g.cold
	if cold <= 1 {
		cold = 3
	}
	// runtime state: any stored token level the bucket can hold, any previous QPS, any time since the last fill
	stored := rt.I64n("stored", 40)
	rt.Assume(stored <= int64(c.maxToken))
	c.storedTokens = stored
	last := (2000000000 + rt.U64n("lastSec", 20)) * 1000
	c.lastFilledTime = last
	now := last + rt.U64n("elapsedMs", 24)
	rt.SetClockMs(now)
	st.prev = float64(rt.U32n("prevQps", 20))
	allowed := c.CalculateAllowedTokens(1, 0)
	rt.Reach("c11.warm")
	rt.AssertExcept(rt.IsFinite(allowed) && allowed >= 0, "the effective threshold is a finite non-negative number", "D12", c.maxToken == c.warningToken)
	rt.AssertExcept(allowed <= g.thr*1.0000001, "the admitted rate never exceeds the configured threshold", "D12", c.maxToken == c.warningToken)
	rt.Assert(c.storedTokens >= 0 && c.storedTokens <= int64(c.maxToken), "the stored tokens stay inside the bucket")
	if c.storedTokens == int64(c.maxToken) && c.maxToken > c.warningToken {
		rt.Reach("c11.cold")
		rt.Assert(allowed <= g.thr/float64(cold)*1.01+1e-9, "with a full bucket (after idling) the rate starts no higher than about threshold/coldFactor")
	}
	if c.storedTokens < int64(c.warningToken) {
		rt.Assert(allowed == g.thr, "below the warning level the full threshold is available")
	}
}

// VerifC11WarmIdle: after an idle period long enough to refill the bucket from any level, the
// bucket is full and the rate restarts at about threshold/coldFactor.
func VerifC11WarmIdle() {
	g := verifWarmGrid[rt.Param("GRID")]
	r := &Rule{Resource: "W", TokenCalculateStrategy: WarmUp, ControlBehavior: Reject, Threshold: g.thr, WarmUpPeriodSec: g.period, WarmUpColdFactor: g.cold}
	st := &verifQpsStat{}
	tsc := &TrafficShapingController{rule: r, boundStat: standaloneStatistic{readOnlyMetric: st}}
	c := NewWarmUpTrafficShapingCalculator(tsc, r).(*WarmUpTrafficShapingCalculator)
	cold := g.cold
	if cold <= 1 {
		cold = 3
	}
	if c.maxToken <= c.warningToken {
		return // collapsed token range (D12 region): no cold phase
	}
	stored := rt.I64n("stored", 40)
	rt.Assume(stored <= int64(c.maxToken))
	c.storedTokens = stored
	last := (2000000000 + rt.U64n("lastSec", 8)) * 1000
	c.lastFilledTime = last
	idleMs := uint64((float64(c.maxToken)+2)*1000.0/g.thr) + 1001 // concrete: time to refill an empty bucket, rounded up, plus the second the calculator truncates
	now := last + idleMs + rt.U64n("extraMs", 16)
	rt.SetClockMs(now)
	st.prev = 0
	allowed := c.CalculateAllowedTokens(1, 0)
	rt.Reach("c11.idle")
	// D30: with a threshold below the cold factor the low-traffic test (passQps < uint32(threshold)/coldFactor) is never true
	d30 := uint32(g.thr)/cold == 0 && stored >= int64(c.warningToken)
	rt.AssertExcept(c.storedTokens == int64(c.maxToken), "after an idle period long enough to refill it the bucket is full (cold start)", "D30", d30)
	rt.AssertExcept(allowed <= g.thr/float64(cold)*1.01+1e-9, "after idling the rate starts no higher than about threshold/coldFactor", "D30", d30)
}

// VerifC11WarmDrain: sustained demand (the previous window admitted at least the whole requests of
// the cold rate, and at least one) drains the bucket above the warning line, so the rate climbs to
// the full threshold within about (maxToken-warningToken)/coldRate seconds.
func VerifC11WarmDrain() {
	g := verifWarmGrid[rt.Param("GRID")]
	r := &Rule{Resource: "W", TokenCalculateStrategy: WarmUp, ControlBehavior: Reject, Threshold: g.thr, WarmUpPeriodSec: g.period, WarmUpColdFactor: g.cold}
	st := &verifQpsStat{}
	tsc := &TrafficShapingController{rule: r, boundStat: standaloneStatistic{readOnlyMetric: st}}
	c := NewWarmUpTrafficShapingCalculator(tsc, r).(*WarmUpTrafficShapingCalculator)
	cold := g.cold
	if cold <= 1 {
		cold = 3
	}
	if c.maxToken <= c.warningToken {
		return
	}
	stored := rt.I64n("stored", 40)
	rt.Assume(stored > int64(c.warningToken) && stored <= int64(c.maxToken))
	c.storedTokens = stored
	last := (2000000000 + rt.U64n("lastSec", 8)) * 1000
	c.lastFilledTime = last
	now := last + 1000 + rt.U64n("extraMs", 12) // the next second (or a few later)
	rt.SetClockMs(now)
	prev := rt.U32n("prevQps", 16)
	coldRate := uint32(g.thr) / cold
	rt.Assume(prev >= coldRate && prev >= 1)
	st.prev = float64(prev)
	c.CalculateAllowedTokens(1, 0)
	rt.Reach("c11.drain")
	rt.Assert(c.storedTokens < stored, "under sustained demand the bucket above the warning line drains (the rate climbs towards the threshold)")
}

// VerifC11WarmStarve: a steady single-token demand is not starved forever when the threshold is at
// least one. One-step form: if this second's single-token request is rejected (allowed < 1) and the
// previous second admitted nothing, then one more such second changes the bucket or lifts the rate
// to at least one - a state in which neither happens rejects the demand forever.
func VerifC11WarmStarve() {
	g := verifWarmGrid[rt.Param("GRID")]
	r := &Rule{Resource: "W", TokenCalculateStrategy: WarmUp, ControlBehavior: Reject, Threshold: g.thr, WarmUpPeriodSec: g.period, WarmUpColdFactor: g.cold}
	st := &verifQpsStat{}
	tsc := &TrafficShapingController{rule: r, boundStat: standaloneStatistic{readOnlyMetric: st}}
	c := NewWarmUpTrafficShapingCalculator(tsc, r).(*WarmUpTrafficShapingCalculator)
	cold := g.cold
	if cold <= 1 {
		cold = 3
	}
	if g.thr < 1 || c.maxToken <= c.warningToken {
		return
	}
	stored := rt.I64n("stored", 40)
	rt.Assume(stored <= int64(c.maxToken))
	c.storedTokens = stored
	last := (2000000000 + rt.U64n("lastSec", 8)) * 1000
	c.lastFilledTime = last
	now := last + 1000 + rt.U64n("extraMs", 10)
	rt.SetClockMs(now)
	st.prev = 0 // nothing was admitted in the previous second
	allowed := c.CalculateAllowedTokens(1, 0)
	rt.Reach("c11.starve")
	if allowed < 1 {
		before := c.storedTokens
		rt.SetClockMs(now + 1000)
		allowed2 := c.CalculateAllowedTokens(1, 0)
		rt.AssertExcept(allowed2 >= 1 || c.storedTokens != before, "a rejected steady single-token demand makes progress (the bucket moves or the rate reaches one): it is not starved forever", "D30", uint32(g.thr)/cold == 0)
	}
}

// VerifC11WarmRace: two requests arrive at once as the first ones after an idle period long enough
// to refill the bucket (context switches at every atomic operation): both are held to the cold rate.
func VerifC11WarmRace() {
	g := verifWarmGrid[rt.Param("GRID")]
	r := &Rule{Resource: "W", TokenCalculateStrategy: WarmUp, ControlBehavior: Reject, Threshold: g.thr, WarmUpPeriodSec: g.period, WarmUpColdFactor: g.cold}
	st := &verifQpsStat{}
	tsc := &TrafficShapingController{rule: r, boundStat: standaloneStatistic{readOnlyMetric: st}}
	c := NewWarmUpTrafficShapingCalculator(tsc, r).(*WarmUpTrafficShapingCalculator)
	cold := g.cold
	if cold <= 1 {
		cold = 3
	}
	if c.maxToken <= c.warningToken || uint32(g.thr)/cold == 0 {
		return
	}
	stored := int64(rt.U32n("stored", 8))
	rt.Assume(stored <= int64(c.maxToken))
	c.storedTokens = stored
	last := uint64(2000000000000)
	c.lastFilledTime = last
	idleMs := uint64((float64(c.maxToken)+2)*1000.0/g.thr) + 1001
	rt.SetClockMs(last + idleMs)
	st.prev = 0
	var allowed [2]float64
	nT := 2
	for i := 0; i < nT; i++ {
		i := i
		rt.Spawn(func() { allowed[i] = c.CalculateAllowedTokens(1, 0) })
	}
	rt.Join()
	rt.Reach("c11.race")
	for i := 0; i < nT; i++ {
		rt.Assert(allowed[i] <= g.thr/float64(cold)*1.01+1e-9, "after idling, each of two simultaneous first requests is held to about threshold/coldFactor")
	}
}

// VerifC11Bound: a warm-up rule loaded through the rule manager — with either control behaviour —
// is warmed up by the traffic of its own resource: the calculator built by the manager reads the
// previous second's admitted rate from the resource's statistic, so sustained demand drains the bucket
// (and the rate climbs), and a resource without traffic keeps it full.
func VerifC11Bound() {
	t0 := uint64(2000000000000)
	rt.SetClockMs(t0)
	beh := []ControlBehavior{Reject, Throttling}[rt.Param("BEH")]
	r := &Rule{Resource: "W", TokenCalculateStrategy: WarmUp, ControlBehavior: beh, Threshold: 10, WarmUpPeriodSec: 10, WarmUpColdFactor: 3, MaxQueueingTimeMs: 1000}
	if rt.Bool("perResource") {
		LoadRulesOfResource("W", []*Rule{r})
	} else {
		LoadRules([]*Rule{r})
	}
	tcs := getTrafficControllerListFor("W")
	if len(tcs) != 1 {
		rt.Assert(false, "a valid warm-up rule gets a controller")
		return
	}
	c, ok := tcs[0].flowCalculator.(*WarmUpTrafficShapingCalculator)
	if !ok {
		rt.Assert(false, "a warm-up rule gets the warm-up calculator")
		return
	}
	node := stat.GetOrCreateResourceNode("W", base.ResTypeCommon)
	// 0..15 requests admitted in the second before the check (a table look-up splits the cases: the FP chain then folds)
	n := []int64{0, 1, 2, 3, 4, 5, 6, 7, 8, 9, 10, 11, 12, 13, 14, 15}[rt.Choice(16)]
	rt.SetClockMs(t0 + 500 + rt.U64n("ms0", 8)) // inside the bucket [t0+500, t0+1000)
	node.AddCount(base.MetricEventPass, n)
	rt.SetClockMs(t0 + 1000 + rt.U64n("ms", 9)) // up to 511 ms into the next second: the window one bucket back still holds that bucket
	allowed := c.CalculateAllowedTokens(1, 0)
	rt.Reach("c11.bound")
	rt.Assert(c.storedTokens == int64(c.maxToken)-n, "the warm-up bucket (full after idling) is drained by what its resource admitted in the previous second")
	rt.Assert(allowed <= 10 && allowed > 0, "the effective threshold lies in (0, threshold]")
	if beh == Throttling {
		// pacing follows the effective (warming) threshold, not the configured one: with the bucket still at least 35
		// tokens above the warning line the rate is at most 1/(35*slope+1/10) < 5 per second
		r1 := tcs[0].PerformChecking(node, 1, 0)
		r2 := tcs[0].PerformChecking(node, 1, 0)
		rt.Reach("c11.bound-paced")
		rt.Assert(r1 == nil || !r1.IsBlocked(), "the first request after idling passes")
		rt.Assert(r2 != nil && r2.Status() == base.ResultStatusShouldWait && r2.NanosToWait() >= 200*1000*1000,
			"a cold warm-up rule with throttling spaces requests by the warming rate (at least 200 ms here), not by the configured threshold")
	}
}
