package flow

import (
	rt "github.com/alibaba/sentinel-golang/zzverif/verifrt"
)

// C14 (flow): reloading does not disturb the runtime state of unchanged rules
// (DESIGN §5 C14): object identity of the breakers of field-identical rules, statistic identity
// for modified-but-stat-compatible rules.

func verifBaseRule14(i int) *Rule {
	// two stat-compatible throttling-free reject rules on the default window that differ in their threshold
	return &Rule{Resource: "A", TokenCalculateStrategy: Direct, ControlBehavior: Reject, Threshold: float64(1 + i + int(rt.U32n("thr", 3))*4),
		StatIntervalInMs: []uint32{0, 700}[rt.Param("STANDALONE")]}
}

func VerifC14() {
	rt.SetClockMs(2000000000000)
	nOld, nNew := 1+rt.Choice(rt.Param("NOLD")), 1+rt.Choice(rt.Param("NNEW"))
	var old []*Rule
	for i := 0; i < nOld; i++ {
		old = append(old, verifBaseRule14(i))
	}
	if _, err := LoadRules(old); err != nil {
		rt.Assert(false, "initial load failed")
		return
	}
	ob := append([]*TrafficShapingController(nil), getTrafficControllerListFor("A")...)
	if len(ob) != nOld {
		rt.Assert(false, "initial load did not build one controller per rule")
		return
	}
	// new list: each element an identical copy of an old rule, a modified (stat-compatible) copy, or an unrelated rule
	kind := make([]int, nNew) // 0..nOld-1: identical to old[k]; 10+k: modified copy of old[k]; 99: unrelated
	var nl []*Rule
	for i := 0; i < nNew; i++ {
		c := rt.Choice(2*nOld + 1)
		switch {
		case c < nOld:
			x := *old[c]
			nl, kind[i] = append(nl, &x), c
		case c < 2*nOld:
			x := *old[c-nOld]
			x.Threshold += 100 // same statistic shape, different threshold
			nl, kind[i] = append(nl, &x), 10+c-nOld
		default:
			nl, kind[i] = append(nl, &Rule{Resource: "A", ControlBehavior: Throttling, Threshold: 5, MaxQueueingTimeMs: 10}), 99
		}
	}
	if rt.Bool("perResource") {
		LoadRulesOfResource("A", nl)
	} else {
		LoadRules(nl)
	}
	nb := getTrafficControllerListFor("A")
	rt.Reach("c14.reloaded")
	if len(nb) != nNew {
		rt.Assert(false, "one controller per valid new rule")
		return
	}
	// D9 region: a modified (stat-compatible) rule precedes an identical rule
	region := false
	seenMod := false
	for i := 0; i < nNew; i++ {
		if kind[i] >= 10 && kind[i] < 99 {
			seenMod = true
		}
		if kind[i] < 10 && seenMod {
			region = true
		}
	}
	// identical rules keep their breaker object (and hence state, deadline, statistics)
	for k := 0; k < nOld; k++ {
		inNew, kept := 0, 0
		for i := 0; i < nNew; i++ {
			// old rules are pairwise different (different thresholds), so the class of old[k] is {old[k]}
			if kind[i] == k {
				inNew++
			}
			if rt.SameObject(nb[i], ob[k]) {
				kept++
				rt.Assert(kind[i] == k, "an old controller is only reused for a rule identical to its own")
			}
		}
		want := 0
		if inNew > 0 {
			want = 1
		}
		rt.AssertExcept(kept == want, "a rule identical in the old and new list keeps its controller object (pacing state, warm-up tokens, statistics)", "D9", region)
	}
	// a modified rule with unchanged statistic parameters keeps the accumulated statistics of an old breaker
	// that no identical rule claims, when there is exactly one such candidate and one such modified rule
	nMod, modIdx := 0, -1
	for i := 0; i < nNew; i++ {
		if kind[i] >= 10 && kind[i] < 99 {
			nMod++
			modIdx = i
		}
	}
	unclaimed, ucIdx := 0, -1
	for k := 0; k < nOld; k++ {
		claimed := false
		for i := 0; i < nNew; i++ {
			if kind[i] == k {
				claimed = true
			}
		}
		if !claimed {
			unclaimed++
			ucIdx = k
		}
	}
	// surplus copies of an identical rule (more copies than old breakers of that rule) also look for statistics
	surplus := 0
	for k := 0; k < nOld; k++ {
		c := 0
		for i := 0; i < nNew; i++ {
			if kind[i] == k {
				c++
			}
		}
		if c > 1 {
			surplus += c - 1
		}
	}
	if nMod == 1 && surplus == 0 && unclaimed == 1 {
		rt.Reach("c14.statreuse")
		rt.AssertExcept(rt.SameObject(nb[modIdx].boundStat.readOnlyMetric, ob[ucIdx].boundStat.readOnlyMetric), "a modified rule with unchanged statistic parameters keeps the accumulated statistics", "D9", region)
	}
}
