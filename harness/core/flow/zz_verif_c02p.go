package flow

import (
	"github.com/alibaba/sentinel-golang/core/base"
	"github.com/alibaba/sentinel-golang/core/stat"
	rt "github.com/alibaba/sentinel-golang/zzverif/verifrt"
)

// C02 (concurrent clause, admission-path granularity): an Entry is split into its rule-check phase
// and its statistic phase, interleaved in every order inside one statistic window. With at most k
// requests simultaneously inside the admission path the tokens admitted in the window exceed the
// threshold by at most (k-1) times the largest batch; a request that is alone in the path is decided exactly.

func VerifC02Phases() {
	verifShrinkGlobalStat()
	rt.SetClockMs(2000000000100)
	thr := rt.U32n("thr", 4)
	if _, err := LoadRules([]*Rule{{Resource: "A", Threshold: float64(thr), StatIntervalInMs: uint32(rt.Param("STAT1"))}}); err != nil {
		rt.Assert(false, "LoadRules failed")
		return
	}
	node := stat.GetOrCreateResourceNode("A", base.ResTypeCommon)
	type req struct {
		ctx     *base.EntryContext
		b       int64
		r       *base.TokenResult // what the rule check returned; the chain reads its status again when it reports the outcome
		blocked bool              // the rule check found it blocked
		told    bool              // the statistic slots have been told the outcome (a blocked request then only has to exit)
	}
	var pending []req
	var recorded, admitted, maxBatch int64
	kmax := 0
	K := rt.Param("K")
	for k := 0; k < K; k++ {
		if len(pending) == 0 || rt.Bool("check") {
			b := int64(1 + rt.U32n("batch", 2))
			if b > maxBatch {
				maxBatch = b
			}
			ctx := verifCtx("A", node, uint32(b))
			r := DefaultSlot.Check(ctx)
			if r != nil {
				ctx.RuleCheckResult = r // as SlotChain.Entry does with the result of the rule checks
			}
			blocked := r != nil && r.IsBlocked()
			inPath := 0
			for _, q := range pending {
				if !q.blocked {
					inPath++
				}
			}
			if inPath+1 > kmax {
				kmax = inPath + 1
			}
			if inPath == 0 {
				rt.Assert(blocked == (recorded+b > int64(thr)), "alone in the admission path: admitted iff tokens admitted in the window + batch <= threshold")
			}
			if !blocked {
				admitted += b
			}
			if !blocked || rt.Param("BLOCKED") != 0 {
				pending = append(pending, req{ctx: ctx, b: b, r: r, blocked: blocked})
			}
			rt.Reach("c02p.check")
		} else {
			i := rt.Choice(len(pending))
			q := pending[i]
			switch {
			case q.blocked && q.told: // the blocked entry exits: its context is refurbished for the pool
				q.ctx.Reset()
				pending = append(pending[:i:i], pending[i+1:]...)
			case q.r != nil && q.r.IsBlocked(): // the chain reports the outcome it reads from the result now
				rt.Assert(q.blocked, "a request the rule check admitted is not reported as blocked")
				pending[i].told = true
			default:
				rt.Assert(!q.blocked, "a request the rule check rejected is not recorded as passed (rejected requests do not consume quota), whatever other requests do meanwhile")
				pending = append(pending[:i:i], pending[i+1:]...)
				stat.DefaultSlot.OnEntryPassed(q.ctx)
				DefaultStandaloneStatSlot.OnEntryPassed(q.ctx)
				recorded += q.b
				rt.Reach("c02p.passed")
			}
		}
		excess := int64(kmax-1) * maxBatch
		if excess < 0 {
			excess = 0
		}
		rt.Assert(admitted <= int64(thr)+excess, "with k requests simultaneously inside the admission path the excess in a window is at most (k-1) times the largest batch")
	}
	rt.Reach("c02p.done")
}
