package flow

import (
	"github.com/alibaba/sentinel-golang/core/base"
	"github.com/alibaba/sentinel-golang/core/stat"
	rt "github.com/alibaba/sentinel-golang/zzverif/verifrt"
)

// C02 (concurrent clause, admission-path granularity): an Entry is split into its rule-check phase
// and its statistic phase, interleaved in every order inside one statistic window. With at most k
// requests simultaneously inside the admission path the tokens admitted in the window exceed the
// threshold by at most (k-1) times the largest batch; a request that is alone in the path is decided exactly.

func VerifC02Phases() {
	verifShrinkGlobalStat()
	rt.SetClockMs(2000000000100)
	thr := rt.U32n("thr", 4)
	if _, err := LoadRules([]*Rule{{Resource: "A", Threshold: float64(thr), StatIntervalInMs: uint32(rt.Param("STAT1"))}}); err != nil {
		rt.Assert(false, "LoadRules failed")
		return
	}
	node := stat.GetOrCreateResourceNode("A", base.ResTypeCommon)
	type req struct {
		ctx *base.EntryContext
		b   int64
	}
	var pending []req
	var recorded, admitted, maxBatch int64
	kmax := 0
	K := rt.Param("K")
	for k := 0; k < K; k++ {
		if len(pending) == 0 || rt.Bool("check") {
			b := int64(1 + rt.U32n("batch", 2))
			if b > maxBatch {
				maxBatch = b
			}
			ctx := verifCtx("A", node, uint32(b))
			r := DefaultSlot.Check(ctx)
			blocked := r != nil && r.IsBlocked()
			if len(pending)+1 > kmax {
				kmax = len(pending) + 1
			}
			if len(pending) == 0 {
				rt.Assert(blocked == (recorded+b > int64(thr)), "alone in the admission path: admitted iff tokens admitted in the window + batch <= threshold")
			}
			if !blocked {
				pending = append(pending, req{ctx, b})
				admitted += b
			}
			rt.Reach("c02p.check")
		} else {
			i := rt.Choice(len(pending))
			q := pending[i]
			pending = append(pending[:i:i], pending[i+1:]...)
			stat.DefaultSlot.OnEntryPassed(q.ctx)
			DefaultStandaloneStatSlot.OnEntryPassed(q.ctx)
			recorded += q.b
			rt.Reach("c02p.passed")
		}
		excess := int64(kmax-1) * maxBatch
		if excess < 0 {
			excess = 0
		}
		rt.Assert(admitted <= int64(thr)+excess, "with k requests simultaneously inside the admission path the excess in a window is at most (k-1) times the largest batch")
	}
	rt.Reach("c02p.done")
}
