package flow

import (
	"github.com/alibaba/sentinel-golang/core/base"
	"github.com/alibaba/sentinel-golang/core/config"
	"github.com/alibaba/sentinel-golang/core/stat"
	rt "github.com/alibaba/sentinel-golang/zzverif/verifrt"
)

// C02 — reject-mode QPS rules admit exactly up to the threshold per aligned window (DESIGN §5 C02).
// The global geometry is shrunk through the real config API to 4 x 500 ms (default view 2 x 1000 ms).

// global statistic geometry: GS buckets of 500 ms (job parameter GS = 2 or 4)
const verifGlobalBL = 500

var verifGlobalI uint64 = 2000

type verifReq struct {
	t        uint64
	res      int // 0 = A, 1 = B
	b        int64
	admitted bool
}

func verifShrinkGlobalStat() {
	gs := uint32(rt.Param("GS"))
	verifGlobalI = uint64(gs) * verifGlobalBL
	ent := config.NewDefaultConfig()
	ent.Sentinel.Stat.GlobalStatisticSampleCountTotal = gs
	ent.Sentinel.Stat.GlobalStatisticIntervalMsTotal = gs * verifGlobalBL
	ent.Sentinel.Stat.MetricStatisticSampleCount = 2
	ent.Sentinel.Stat.MetricStatisticIntervalMs = 1000
	config.ResetGlobalConfig(ent)
}

// verifWindowOf returns (bucket length, window width) of the statistic a rule with the given
// StatIntervalInMs is bound to under the shrunk geometry, written from the documentation:
// 0 or the metric interval -> default view; a multiple of the global bucket that divides the global
// interval -> reused view; anything else -> a standalone one-bucket window of that length.
func verifWindowOf(statMs uint32) (bl, width uint64, standalone bool) {
	switch {
	case statMs == 0 || statMs == 1000:
		return verifGlobalBL, 1000, false
	case statMs%verifGlobalBL == 0 && uint32(verifGlobalI)%statMs == 0:
		return verifGlobalBL, uint64(statMs), false
	}
	return uint64(statMs), uint64(statMs), true
}

func verifCtx(res string, node *stat.ResourceNode, b uint32) *base.EntryContext {
	ctx := base.NewEmptyEntryContext()
	ctx.Resource = base.NewResourceWrapper(res, base.ResTypeCommon, base.Outbound)
	ctx.StatNode = node
	ctx.Input = &base.SentinelInput{BatchCount: b}
	ctx.RuleCheckResult = base.NewTokenResultPass()
	return ctx
}

// VerifC02Hist: K requests at symbolic non-decreasing times with symbolic batch through the real
// flow slot and the real statistic slots. Params: NR rules (1|2) on resource A, STAT1/STAT2 their
// StatIntervalInMs, ASSOC=1 makes rule 1 an associated-resource rule referring to B (requests then
// go to A or B), K history length.
func VerifC02Hist() {
	verifShrinkGlobalStat()
	t := rt.U64n("t0", 50)
	rt.Assume(t >= 10000)
	rt.SetClockMs(t)
	nr, K, assoc := rt.Param("NR"), rt.Param("K"), rt.Param("ASSOC") != 0
	stats := []uint32{uint32(rt.Param("STAT1")), uint32(rt.Param("STAT2"))}
	var rules []*Rule
	var thr []float64
	for i := 0; i < nr; i++ {
		th := rt.F64Cmp("thr")
		r := &Rule{Resource: "A", Threshold: th, StatIntervalInMs: stats[i], TokenCalculateStrategy: Direct, ControlBehavior: Reject}
		if assoc && i == 0 {
			r.RelationStrategy, r.RefResource = AssociatedResource, "B"
		}
		rules = append(rules, r)
		thr = append(thr, th)
	}
	if _, err := LoadRules(rules); err != nil {
		rt.Assert(false, "LoadRules returned an error for valid rules")
		return
	}
	nodes := []*stat.ResourceNode{stat.GetOrCreateResourceNode("A", base.ResTypeCommon), stat.GetOrCreateResourceNode("B", base.ResTypeCommon)}
	names := []string{"A", "B"}
	hist := make([]verifReq, 0, K)
	for k := 0; k < K; k++ {
		nt := rt.U64n("t", 50)
		rt.Assume(nt >= t)
		t = nt
		rt.SetClockMs(t)
		q := verifReq{t: t, b: int64(rt.U32n("batch", 20))}
		if assoc {
			q.res = rt.Choice(2)
		}
		ctx := verifCtx(names[q.res], nodes[q.res], uint32(q.b))
		r := DefaultSlot.Check(ctx)
		blocked := r != nil && r.IsBlocked()
		// oracle: the first rule (in order) of the request's resource whose metered window is full
		wantBlocked := false
		var wantTrig int64
		if q.res == 0 {
			for i := 0; i < nr && !wantBlocked; i++ {
				metered := 0
				if assoc && i == 0 {
					metered = 1
				}
				bl, width, _ := verifWindowOf(stats[i])
				var ref int64
				for _, h := range hist {
					if h.admitted && h.res == metered && h.t/bl*bl <= t/bl*bl && t/bl*bl-h.t/bl*bl < width {
						ref += h.b
					}
				}
				if float64(ref+q.b) > thr[i] {
					wantBlocked, wantTrig = true, ref
				}
			}
		}
		rt.Reach("c02.decided")
		_, _, sa := verifWindowOf(stats[0])
		rt.AssertExcept(blocked == wantBlocked, "admitted iff tokens already admitted in the window + batch <= threshold, for every rule", "D19", assoc && sa)
		if blocked && wantBlocked {
			tv, ok := r.BlockError().TriggeredValue().(float64)
			rt.AssertExcept(ok && tv == float64(wantTrig), "the block error reports the window count that triggered it", "D19", assoc && sa)
		}
		q.admitted = !blocked
		hist = append(hist, q)
		// what the chain's statistic slots do with the outcome
		if blocked {
			stat.DefaultSlot.OnEntryBlocked(ctx, r.BlockError())
			DefaultStandaloneStatSlot.OnEntryBlocked(ctx, r.BlockError())
		} else {
			stat.DefaultSlot.OnEntryPassed(ctx)
			DefaultStandaloneStatSlot.OnEntryPassed(ctx)
		}
	}
	rt.Reach("c02.done")
}
