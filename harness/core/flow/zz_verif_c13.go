package flow

import (
	"github.com/alibaba/sentinel-golang/core/system_metric"
	rt "github.com/alibaba/sentinel-golang/zzverif/verifrt"
)

// C13 (flow): only valid, supported, latest-loaded rules are in force; reported == enforced;
// loading never panics; an identical reload reports "unchanged".

var verifNames = []string{"", "A", "B"}

func verifThreshold() float64 {
	switch rt.Choice(3) {
	case 0:
		return -1
	case 1:
		return 0.5
	}
	return float64(rt.U32n("thr", 20))
}

// verifMkRuleCompact: a small family of rule templates for multi-step / multi-rule jobs (MODE=1).
func verifMkRuleCompact(forceRes string) *Rule {
	res := forceRes
	if res == "" {
		res = verifNames[rt.Choice(3)]
	}
	switch rt.Choice(7) {
	case 0:
		return nil
	case 6: // valid memory-adaptive rule, symbolic thresholds and water marks (reloads may differ in one of them only)
		return &Rule{Resource: res, TokenCalculateStrategy: MemoryAdaptive, LowMemUsageThreshold: 1000 + int64(rt.U32n("lo", 2)), HighMemUsageThreshold: 1 + int64(rt.U32n("hi", 2)),
			MemLowWaterMarkBytes: 1000 + int64(rt.U32n("lw", 2)), MemHighWaterMarkBytes: 2000 + int64(rt.U32n("hw", 2))}
	case 1: // valid reject rule, symbolic integral threshold
		return &Rule{Resource: res, Threshold: float64(rt.U32n("thr", 20))}
	case 2: // invalid: negative threshold
		return &Rule{Resource: res, Threshold: -1}
	case 3: // valid warm-up rule relying on the default cold factor
		return &Rule{Resource: res, TokenCalculateStrategy: WarmUp, Threshold: 10, WarmUpPeriodSec: 10}
	case 4: // throttling rule, symbolic queueing limit
		return &Rule{Resource: res, ControlBehavior: Throttling, Threshold: 10, MaxQueueingTimeMs: rt.U32("maxq")}
	}
	// valid by the validity check but outside the built-in strategy table
	return &Rule{Resource: res, TokenCalculateStrategy: TokenCalculateStrategy(7), Threshold: 1}
}

func verifMkRule(forceRes string) *Rule {
	if rt.Param("MODE") == 1 {
		return verifMkRuleCompact(forceRes)
	}
	if rt.Bool("nil") {
		return nil
	}
	r := &Rule{Resource: forceRes,
		TokenCalculateStrategy: TokenCalculateStrategy(rt.I32("tcs")),
		ControlBehavior:        ControlBehavior(rt.I32("cb")),
		Threshold:              verifThreshold(),
		RelationStrategy:       RelationStrategy(rt.I32("rel")),
		MaxQueueingTimeMs:      rt.U32("maxq"),
		StatIntervalInMs:       []uint32{0, 1000, 700}[rt.Choice(3)],
	}
	if forceRes == "" {
		r.Resource = verifNames[rt.Choice(3)]
	}
	if rt.Bool("ref") {
		r.RefResource = "B"
	}
	if r.TokenCalculateStrategy == WarmUp {
		r.WarmUpPeriodSec = []uint32{0, 10}[rt.Choice(2)]
		r.WarmUpColdFactor = []uint32{0, 1, 3}[rt.Choice(3)]
	}
	if r.TokenCalculateStrategy == MemoryAdaptive {
		r.LowMemUsageThreshold, r.HighMemUsageThreshold = 100, int64(rt.U32n("hi", 8))
		r.MemLowWaterMarkBytes, r.MemHighWaterMarkBytes = 1000, int64(rt.U32n("hw", 12))
	}
	return r
}

func verifMkList(n int, forceRes string) []*Rule {
	m := rt.Choice(n + 1)
	l := make([]*Rule, 0, m)
	for i := 0; i < m; i++ {
		l = append(l, verifMkRule(forceRes))
	}
	return l
}

func verifCopyList(l []*Rule) []*Rule {
	if l == nil {
		return nil
	}
	c := make([]*Rule, 0, len(l))
	for _, r := range l {
		if r == nil {
			c = append(c, nil)
		} else {
			x := *r
			c = append(c, &x)
		}
	}
	return c
}

// verifSupported: the strategy/behaviour pair is in the module's built-in table (documented set).
func verifSupported(r *Rule) bool {
	return r.TokenCalculateStrategy >= Direct && r.TokenCalculateStrategy <= MemoryAdaptive &&
		r.ControlBehavior >= Reject && r.ControlBehavior <= Throttling
}

func verifValidList(l []*Rule, res string) []Rule {
	var out []Rule
	for _, r := range l {
		if r != nil && r.Resource == res && verifIsValid(r) && verifSupported(r) {
			out = append(out, *r)
		}
	}
	return out
}

func verifNoPanic(f func()) (ok bool) {
	defer func() {
		if r := recover(); r != nil {
			ok = false
		}
	}()
	f()
	return true
}

func VerifC13() {
	system_metric.TotalMemorySize = 1 << 40
	rt.SetClockMs(10000000)
	L, N := rt.Param("L"), rt.Param("N")
	ref := map[string][]Rule{}
	for step := 0; step < L; step++ {
		switch rt.Choice(4) {
		case 0:
			l := verifMkList(N, "")
			snap := verifCopyList(l) // the values handed in, before the module saw them
			var err error
			rt.Assert(verifNoPanic(func() { _, err = LoadRules(l) }), "LoadRules never panics")
			rt.Assert(err == nil, "LoadRules reports no error")
			ref = map[string][]Rule{}
			for _, n := range verifNames {
				if v := verifValidList(snap, n); len(v) > 0 {
					ref[n] = v
				}
			}
			changed := true
			rt.Assert(verifNoPanic(func() { changed, _ = LoadRules(verifCopyList(snap)) }), "LoadRules never panics")
			rt.Assert(!changed, "an identical whole-set reload reports unchanged")
			rt.Reach("c13.loadall")
		case 1:
			r0 := verifNames[1+rt.Choice(2)]
			l := verifMkList(N, r0)
			snap := verifCopyList(l)
			rt.Assert(verifNoPanic(func() { LoadRulesOfResource(r0, l) }), "LoadRulesOfResource never panics")
			if v := verifValidList(snap, r0); len(v) > 0 {
				ref[r0] = v
			} else {
				delete(ref, r0)
			}
			if len(l) > 0 {
				changed := true
				rt.Assert(verifNoPanic(func() { changed, _ = LoadRulesOfResource(r0, verifCopyList(snap)) }), "LoadRulesOfResource never panics")
				rt.Assert(!changed, "an identical per-resource reload reports unchanged")
			}
			rt.Reach("c13.loadres")
		case 2:
			rt.Assert(ClearRules() == nil, "ClearRules reports no error")
			ref = map[string][]Rule{}
		case 3:
			r0 := verifNames[1+rt.Choice(2)]
			rt.Assert(ClearRulesOfResource(r0) == nil, "ClearRulesOfResource reports no error")
			delete(ref, r0)
		}
		total := 0
		for _, n := range verifNames {
			want := ref[n]
			total += len(want)
			got := getRulesOfResource(n)
			pub := GetRulesOfResource(n)
			tcs := getTrafficControllerListFor(n)
			rt.Assert(len(got) == len(want) && len(pub) == len(want) && len(tcs) == len(want), "rules in force for a resource are exactly the valid rules of its latest load")
			if len(got) == len(want) && len(pub) == len(want) && len(tcs) == len(want) {
				for i := range want {
					rt.Assert(*got[i] == want[i] && pub[i] == want[i] && *tcs[i].BoundRule() == want[i], "enforced and reported rules equal the latest valid rules, in order")
				}
			}
		}
		rt.Assert(len(GetRules()) == total, "GetRules reports exactly the enforced rules")
	}
	rt.Reach("c13.done")
}

// verifIsValid asks the module's validity check about a throw-away copy: the reference must not depend on
// (or be changed by) anything the check does to the object it is given.
func verifIsValid(r *Rule) bool {
	c := *r
	return IsValidRule(&c) == nil
}

// VerifC13FieldDiff: a reload whose rule differs from the rule in force in exactly ONE field (any of the
// behavioural fields, one at a time) puts the new rule in force — the controller that decides afterwards is
// bound to the new values, and a reload that differs in nothing keeps reporting "unchanged".
// Every field of the base rule is populated so that each single-field edit stays valid.
func VerifC13FieldDiff() {
	system_metric.TotalMemorySize = 1 << 40
	rt.SetClockMs(10000000)
	base := &Rule{Resource: "A", RefResource: "B",
		TokenCalculateStrategy: []TokenCalculateStrategy{Direct, WarmUp, MemoryAdaptive}[rt.Choice(3)],
		ControlBehavior:        []ControlBehavior{Reject, Throttling}[rt.Choice(2)],
		RelationStrategy:       []RelationStrategy{CurrentResource, AssociatedResource}[rt.Choice(2)],
		Threshold:              float64(5 + rt.U32n("thr", 3)), MaxQueueingTimeMs: 10, WarmUpPeriodSec: 10, WarmUpColdFactor: 3,
		StatIntervalInMs:      []uint32{0, 700}[rt.Choice(2)],
		LowMemUsageThreshold:  1000, HighMemUsageThreshold: 10, MemLowWaterMarkBytes: 1000, MemHighWaterMarkBytes: 2000}
	snap := *base
	if _, err := LoadRules([]*Rule{base}); err != nil {
		rt.Assert(false, "initial load failed")
		return
	}
	nr := snap
	d := 1 + rt.U32n("delta", 3)
	switch rt.Choice(14) {
	case 0: // no edit at all
	case 1:
		nr.Threshold += float64(d)
	case 2:
		nr.RelationStrategy = AssociatedResource - nr.RelationStrategy
	case 3:
		nr.RefResource = "C"
	case 4:
		nr.StatIntervalInMs += 300 * uint32(d)
	case 5:
		nr.TokenCalculateStrategy = (nr.TokenCalculateStrategy + 1) % 3
	case 6:
		nr.ControlBehavior = Throttling - nr.ControlBehavior
	case 7:
		nr.MaxQueueingTimeMs += uint32(d)
	case 8:
		nr.WarmUpPeriodSec += uint32(d)
	case 9:
		nr.WarmUpColdFactor += uint32(d)
	case 10:
		nr.LowMemUsageThreshold += int64(d)
	case 11:
		nr.HighMemUsageThreshold += int64(d)
	case 12:
		nr.MemLowWaterMarkBytes += int64(d)
	case 13:
		nr.MemHighWaterMarkBytes += int64(d)
	}
	same := nr == snap
	if !verifIsValid(&nr) {
		rt.Assert(false, "a single-field edit of the populated base rule stays valid")
		return
	}
	want := nr
	arg := nr
	changed := false
	if rt.Bool("perResource") {
		changed, _ = LoadRulesOfResource("A", []*Rule{&arg})
	} else {
		changed, _ = LoadRules([]*Rule{&arg})
	}
	rt.Assert(changed == !same, "a reload reports a change exactly when a field differs")
	got, tcs := getRulesOfResource("A"), getTrafficControllerListFor("A")
	rt.Reach("c13.fielddiff")
	if len(got) != 1 || len(tcs) != 1 {
		rt.Assert(false, "one rule and one controller in force after the reload")
		return
	}
	rt.Assert(*got[0] == want && *tcs[0].BoundRule() == want, "after a reload that edits one field the enforced controller is bound to the new values")
}
