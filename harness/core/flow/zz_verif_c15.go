package flow

import (
	"github.com/alibaba/sentinel-golang/core/base"
	"github.com/alibaba/sentinel-golang/core/stat"
	rt "github.com/alibaba/sentinel-golang/zzverif/verifrt"
)

// C15 (flow, static form): lock discipline of the rule manager and the slots — every access to the
// controller map (variable and map object) happens under tcMux in the required mode, the cached raw
// rules under updateRuleMux, the per-resource controller slices are never written after they were
// published to the lock-free readers (Slot.Check iterates them without the lock), and every exported
// function releases what it locked.

func verifGuardFlow() {
	tcMux.Lock()
	rt.Guard(&tcMap, tcMux, "flow.tcMap (variable)")
	rt.GuardObj(tcMap, tcMux, "flow.tcMap (map object)")
	for _, tcs := range tcMap {
		rt.Freeze(tcs, "a published per-resource controller slice of flow.tcMap")
	}
	tcMux.Unlock()
	updateRuleMux.Lock()
	rt.Guard(&currentRules, updateRuleMux, "flow.currentRules (variable)")
	rt.GuardObj(currentRules, updateRuleMux, "flow.currentRules (map object)")
	updateRuleMux.Unlock()
}

func verifFlowRule(res string, thr float64, itv uint32) *Rule {
	return &Rule{Resource: res, Threshold: thr, StatIntervalInMs: itv}
}

func VerifC15() {
	rt.SetClockMs(2000000000000)
	LoadRules([]*Rule{verifFlowRule("A", 1, 0), verifFlowRule("A", 2, 700), verifFlowRule("A", 3, 0), verifFlowRule("B", 4, 0)})
	node := stat.GetOrCreateResourceNode("A", base.ResTypeCommon)
	for step := 0; step < 2; step++ {
		verifGuardFlow()
		switch rt.Choice(11) {
		case 0:
			LoadRules([]*Rule{verifFlowRule("A", 1, 0), verifFlowRule("B", 5, 0)})
		case 1: // keeps the first and third rule, drops the second: reuse with removal from the middle
			LoadRulesOfResource("A", []*Rule{verifFlowRule("A", 1, 0), verifFlowRule("A", 3, 0)})
		case 2: // modified rule that reuses statistics
			LoadRulesOfResource("A", []*Rule{verifFlowRule("A", 9, 700), verifFlowRule("A", 3, 0)})
		case 3:
			ClearRules()
		case 4:
			ClearRulesOfResource("A")
		case 5:
			GetRules()
		case 6:
			GetRulesOfResource("A")
		case 7:
			getRules()
			getRulesOfResource("B")
		case 8:
			ctx := verifCtx("A", node, 1)
			if r := DefaultSlot.Check(ctx); r == nil || !r.IsBlocked() {
				DefaultStandaloneStatSlot.OnEntryPassed(ctx)
			}
		case 9:
			LoadRulesOfResource("A", []*Rule{verifFlowRule("A", 2, 700), verifFlowRule("A", 1, 0)}) // reordering
		case 10:
			LoadRulesOfResource("A", nil)
		}
		rt.Reach("c15.op")
		rt.Assert(rt.LockFree(tcMux) && rt.LockFree(updateRuleMux), "every exported function releases the locks it took")
	}
}
