package flow

import (
	"github.com/alibaba/sentinel-golang/core/base"
	"github.com/alibaba/sentinel-golang/core/stat"
	rt "github.com/alibaba/sentinel-golang/zzverif/verifrt"
)

// C15(b) (flow): a request racing with a rule update is decided entirely by the old or entirely by the
// new rule list of its resource; updating another resource never affects it. Two threads; the request
// walks a list of reject rules whose thresholds are symbolically 0 (blocks everything) or large.

func VerifC15Switch() {
	rt.SetClockMs(2000000000000)
	pick := func(n int, tag string) []float64 {
		out := make([]float64, n)
		for i := range out {
			if rt.Bool(tag) {
				out[i] = 1000000
			}
		}
		return out
	}
	mk := func(res string, thr []float64) []*Rule {
		var l []*Rule
		for i, t := range thr {
			// distinct shapes so that no rule equals another: the warm-up-free reject rules differ in their ID
			l = append(l, &Rule{ID: res + string(rune('0'+i)), Resource: res, TokenCalculateStrategy: Direct, ControlBehavior: Reject, Threshold: t})
		}
		return l
	}
	oldThr := pick(3, "old")
	newThr := pick(2, "new")
	LoadRules(append(mk("A", oldThr), mk("B", []float64{5})...))
	node := stat.GetOrCreateResourceNode("A", base.ResTypeCommon)
	otherOnly := rt.Bool("otherResource")
	var blocked bool
	rt.Spawn(func() {
		ctx := base.NewEmptyEntryContext()
		ctx.Resource = base.NewResourceWrapper("A", base.ResTypeCommon, base.Outbound)
		ctx.StatNode = node
		ctx.Input = &base.SentinelInput{BatchCount: 1}
		ctx.RuleCheckResult = base.NewTokenResultPass()
		r := DefaultSlot.Check(ctx)
		blocked = r != nil && r.IsBlocked()
	})
	rt.Spawn(func() {
		// the new list keeps old rule 1 and 2 (same IDs), dropping rule 0: unchanged rules move to the front
		nl := mk("A", newThr)
		for i := range nl {
			nl[i].ID = "A" + string(rune('1'+i))
		}
		if otherOnly {
			LoadRulesOfResource("B", mk("B", []float64{7}))
		} else if rt.Bool("perResource") {
			LoadRulesOfResource("A", nl)
		} else {
			LoadRules(nl)
		}
	})
	rt.Join()
	rt.Reach("c15.switch")
	decide := func(thr []float64) bool {
		for _, t := range thr {
			if t < 1 {
				return true
			}
		}
		return false
	}
	if otherOnly {
		rt.Assert(blocked == decide(oldThr), "updating the rules of one resource never affects a concurrent decision on another resource")
	} else {
		rt.Assert(blocked == decide(oldThr) || blocked == decide(newThr), "a request racing with a rule update is decided entirely by the old or entirely by the new rule list")
	}
}
