package kratos

import (
	"context"
	"errors"

	"github.com/go-kratos/kratos/v2/metadata"
	"github.com/go-kratos/kratos/v2/selector"
	"github.com/go-kratos/kratos/v2/transport"

	rt "github.com/alibaba/sentinel-golang/pkg/adapters/kitex/zzverif/verifrt" // the kratos module declares the kitex module path
)

// C19 (kratos): client middleware, normal branch.

type verifOutcome struct {
	calls         int
	entriesAtCall int
}

func verifHandlerMode(o *verifOutcome, mode int) error {
	o.calls++
	o.entriesAtCall = rt.GetFlag("entries")
	switch mode {
	case 1:
		return errors.New("handler failed")
	case 2:
		if rt.Bool("panicWithError") {
			panic(errors.New("handler panics with an error value"))
		}
		panic("handler panics")
	}
	return nil
}

func verifNoPanic(f func()) (ok bool) {
	defer func() {
		if r := recover(); r != nil {
			ok = false
		}
	}()
	f()
	return true
}

func verifSetup() (blocked bool, mode int, fallbackSet bool) {
	blocked = rt.Bool("blocked")
	mode = rt.Choice(3)
	fallbackSet = rt.Bool("fallback")
	if blocked {
		rt.SetFlag("entryEnv", 2)
	} else {
		rt.SetFlag("entryEnv", 1)
	}
	return
}

// verifEnd checks the entry contract. errObserved: the adapter sees the handler's error (so it must trace it).
func verifEnd(blocked bool, mode int, o *verifOutcome, fallbackUsed, fallbackSet, panicked, errObserved bool) {
	rt.Reach("c19.returned")
	rt.Assert(rt.GetFlag("entries") == 1, "the adapter asks Sentinel for exactly one entry")
	if blocked {
		rt.Assert(!panicked, "blocked: no panic reaches the framework")
		rt.Assert(o.calls == 0, "blocked: the wrapped handler is not invoked")
		rt.Assert(rt.GetFlag("exits") == 0, "blocked: there is no entry to exit")
		rt.Assert(fallbackUsed == fallbackSet, "blocked: the configured fallback is produced, else the default rejection")
		return
	}
	rt.Assert(o.calls == 1 && o.entriesAtCall == 1, "admitted: the handler runs exactly once, after the entry was requested")
	rt.Assert(rt.GetFlag("exits") == 1, "admitted: the entry is exited exactly once on every path (handler error and panic included)")
	if errObserved {
		if mode == 1 {
			rt.Assert(rt.GetFlag("traces") == 1, "a handler error the adapter observes is traced")
		} else {
			rt.Assert(rt.GetFlag("traces") == 0, "no error is traced when the handler succeeds")
		}
	}
	rt.Assert(panicked == (mode == 2), "a handler panic propagates to the framework, nothing else panics")
}

func VerifC19Client() {
	blocked, mode, fallbackSet := verifSetup()
	outlierOn := false // the outlier branch needs a kratos transport in the context (framework internals): outside this harness
	o := &verifOutcome{}
	fallbackUsed := false
	opts := []Option{WithEnableOutlier(func(context.Context) bool { return outlierOn }), WithResourceExtract(func(context.Context, interface{}) string { return "r" })}
	if fallbackSet {
		opts = append(opts, WithBlockFallback(func(ctx context.Context, req interface{}, blockErr error) (interface{}, error) {
			fallbackUsed = true
			return nil, nil
		}))
	}
	mw := SentinelClientMiddleware(opts...)
	h := mw(func(ctx context.Context, req interface{}) (interface{}, error) { return nil, verifHandlerMode(o, mode) })
	var err error
	panicked := !verifNoPanic(func() { _, err = h(context.Background(), nil) })
	if blocked && !fallbackSet {
		rt.Assert(err != nil || panicked, "blocked: the default rejection is an error")
	}
	// the outlier branch has no fallback of its own and traces only when the peer node is known
	verifEnd(blocked, mode, o, fallbackUsed, fallbackSet && !outlierOn, panicked, !outlierOn)
}

// ---- outlier branch ----

type verifTransport struct{}

func (verifTransport) Kind() transport.Kind            { return transport.KindGRPC }
func (verifTransport) Endpoint() string                { return "discovery:///svc" }
func (verifTransport) Operation() string               { return "/op" }
func (verifTransport) RequestHeader() transport.Header { return nil }
func (verifTransport) ReplyHeader() transport.Header   { return nil }

// VerifC19ClientOutlier: the client middleware with outlier ejection enabled. The kratos context
// accessors are replaced by harness functions (a transport is present, client metadata is present or
// not, no peer).
func VerifC19ClientOutlier() {
	blocked, mode, fallbackSet := verifSetup()
	o := &verifOutcome{}
	fallbackUsed := false
	md := metadata.Metadata{}
	hasMd := rt.Bool("hasMetadata")
	rt.RedirectCall("github.com/go-kratos/kratos/v2/transport.FromClientContext", func(ctx context.Context) (transport.Transporter, bool) { return verifTransport{}, true })
	rt.RedirectCall("github.com/go-kratos/kratos/v2/metadata.FromClientContext", func(ctx context.Context) (metadata.Metadata, bool) { return md, hasMd })
	rt.RedirectCall("github.com/go-kratos/kratos/v2/selector.FromPeerContext", func(ctx context.Context) (*selector.Peer, bool) { return nil, false })
	opts := []Option{WithEnableOutlier(func(context.Context) bool { return true })}
	if fallbackSet {
		opts = append(opts, WithBlockFallback(func(ctx context.Context, req interface{}, blockErr error) (interface{}, error) {
			fallbackUsed = true
			return nil, nil
		}))
	}
	h := SentinelClientMiddleware(opts...)(func(ctx context.Context, req interface{}) (interface{}, error) {
		return nil, verifHandlerMode(o, mode)
	})
	panicked := !verifNoPanic(func() { h(context.Background(), nil) })
	// error tracing in this branch depends on a selected peer, which the harness does not provide
	verifEnd(blocked, mode, o, fallbackUsed, fallbackSet, panicked, false)
}
