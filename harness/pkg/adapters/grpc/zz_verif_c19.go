package grpc

import (
	"context"
	"errors"

	"github.com/alibaba/sentinel-golang/core/base"
	rt "github.com/alibaba/sentinel-golang/pkg/adapters/grpc/zzverif/verifrt"
	"google.golang.org/grpc"
)

// C19 (grpc): every interceptor asks Sentinel for an entry before invoking the wrapped handler;
// blocked => handler not invoked and fallback-or-rejection produced; admitted => handler once,
// entry exited once on every path (handler error traced, handler panic included).

type verifOutcome struct {
	calls         int
	entriesAtCall int
}

// verifEnd checks the contract after the interceptor returned (or panicked through the harness).
func verifEnd(blocked bool, mode int, o *verifOutcome, err error, fallbackUsed, fallbackSet, panicked bool) {
	rt.Reach("c19.returned")
	rt.Assert(rt.GetFlag("entries") == 1, "the adapter asks Sentinel for exactly one entry")
	if blocked {
		rt.Assert(o.calls == 0, "blocked: the wrapped handler is not invoked")
		rt.Assert(rt.GetFlag("exits") == 0, "blocked: there is no entry to exit")
		rt.Assert(fallbackUsed == fallbackSet, "blocked: the configured fallback is produced, else the default rejection")
		if !fallbackSet {
			rt.Assert(err != nil, "blocked: the default rejection is an error")
		}
		rt.Assert(!panicked, "blocked: no panic")
		return
	}
	rt.Assert(o.calls == 1 && o.entriesAtCall == 1, "admitted: the handler runs exactly once, after the entry was requested")
	rt.Assert(rt.GetFlag("exits") == 1, "admitted: the entry is exited exactly once on every path (handler error and panic included)")
	if mode == 1 {
		rt.Assert(rt.GetFlag("traces") == 1 && err != nil, "a handler error is traced and returned")
	} else {
		rt.Assert(rt.GetFlag("traces") == 0, "no error is traced when the handler succeeds")
	}
	rt.Assert(panicked == (mode == 2), "a handler panic propagates to the framework, nothing else panics")
}

func verifHandlerMode(o *verifOutcome, mode int) error {
	o.calls++
	o.entriesAtCall = rt.GetFlag("entries")
	switch mode {
	case 1:
		return errors.New("handler failed")
	case 2:
		if rt.Bool("panicWithError") {
			panic(errors.New("handler panics with an error value"))
		}
		panic("handler panics")
	}
	return nil
}

func verifSetup() (blocked bool, mode int, fallbackSet bool) {
	blocked = rt.Bool("blocked")
	mode = rt.Choice(3)
	fallbackSet = rt.Bool("fallback")
	if blocked {
		rt.SetFlag("entryEnv", 2)
	} else {
		rt.SetFlag("entryEnv", 1)
	}
	return
}

func VerifC19UnaryServer() {
	blocked, mode, fallbackSet := verifSetup()
	o := &verifOutcome{}
	fallbackUsed := false
	var opts []Option
	if fallbackSet {
		opts = append(opts, WithUnaryServerBlockFallback(func(context.Context, interface{}, *grpc.UnaryServerInfo, *base.BlockError) (interface{}, error) {
			fallbackUsed = true
			return nil, nil
		}))
	} else if rt.Bool("nilFallback") {
		opts = append(opts, WithUnaryServerBlockFallback(nil)) // an explicitly nil fallback counts as not configured
	}
	ic := NewUnaryServerInterceptor(opts...)
	var err error
	panicked := !verifNoPanic(func() {
		_, err = ic(context.Background(), nil, &grpc.UnaryServerInfo{FullMethod: "/svc/M"}, func(ctx context.Context, req interface{}) (interface{}, error) {
			return nil, verifHandlerMode(o, mode)
		})
	})
	verifEnd(blocked, mode, o, err, fallbackUsed, fallbackSet, panicked)
}

func VerifC19StreamServer() {
	blocked, mode, fallbackSet := verifSetup()
	o := &verifOutcome{}
	fallbackUsed := false
	var opts []Option
	if fallbackSet {
		opts = append(opts, WithStreamServerBlockFallback(func(interface{}, grpc.ServerStream, *grpc.StreamServerInfo, *base.BlockError) error {
			fallbackUsed = true
			return nil
		}))
	} else if rt.Bool("nilFallback") {
		opts = append(opts, WithStreamServerBlockFallback(nil)) // an explicitly nil fallback counts as not configured
	}
	ic := NewStreamServerInterceptor(opts...)
	var err error
	panicked := !verifNoPanic(func() {
		err = ic(nil, nil, &grpc.StreamServerInfo{FullMethod: "/svc/S"}, func(srv interface{}, stream grpc.ServerStream) error {
			return verifHandlerMode(o, mode)
		})
	})
	verifEnd(blocked, mode, o, err, fallbackUsed, fallbackSet, panicked)
}

func VerifC19UnaryClient() {
	blocked, mode, fallbackSet := verifSetup()
	o := &verifOutcome{}
	fallbackUsed := false
	var opts []Option
	if fallbackSet {
		opts = append(opts, WithUnaryClientBlockFallback(func(context.Context, string, interface{}, *grpc.ClientConn, *base.BlockError) error {
			fallbackUsed = true
			return nil
		}))
	} else if rt.Bool("nilFallback") {
		opts = append(opts, WithUnaryClientBlockFallback(nil)) // an explicitly nil fallback counts as not configured
	}
	ic := NewUnaryClientInterceptor(opts...)
	var err error
	panicked := !verifNoPanic(func() {
		err = ic(context.Background(), "/svc/M", nil, nil, nil, func(ctx context.Context, method string, req, reply interface{}, cc *grpc.ClientConn, opts ...grpc.CallOption) error {
			return verifHandlerMode(o, mode)
		})
	})
	verifEnd(blocked, mode, o, err, fallbackUsed, fallbackSet, panicked)
}

func VerifC19StreamClient() {
	blocked, mode, fallbackSet := verifSetup()
	o := &verifOutcome{}
	fallbackUsed := false
	var opts []Option
	if fallbackSet {
		opts = append(opts, WithStreamClientBlockFallback(func(context.Context, *grpc.StreamDesc, *grpc.ClientConn, string, *base.BlockError) (grpc.ClientStream, error) {
			fallbackUsed = true
			return nil, nil
		}))
	} else if rt.Bool("nilFallback") {
		opts = append(opts, WithStreamClientBlockFallback(nil)) // an explicitly nil fallback counts as not configured
	}
	ic := NewStreamClientInterceptor(opts...)
	var err error
	panicked := !verifNoPanic(func() {
		_, err = ic(context.Background(), &grpc.StreamDesc{}, nil, "/svc/S", func(ctx context.Context, desc *grpc.StreamDesc, cc *grpc.ClientConn, method string, opts ...grpc.CallOption) (grpc.ClientStream, error) {
			return nil, verifHandlerMode(o, mode)
		})
	})
	verifEnd(blocked, mode, o, err, fallbackUsed, fallbackSet, panicked)
}

func verifNoPanic(f func()) (ok bool) {
	defer func() {
		if r := recover(); r != nil {
			ok = false
		}
	}()
	f()
	return true
}
