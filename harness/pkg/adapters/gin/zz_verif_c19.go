package gin

import (
	"errors"
	"net/http"

	rt "github.com/alibaba/sentinel-golang/pkg/adapters/gin/zzverif/verifrt"
	"github.com/gin-gonic/gin"
)

// C19 (gin): the middleware, with gin's own Context.Next / AbortWithStatus executed as real code.
// gin handlers return no error, so nothing can be traced by the adapter.

type verifOutcome struct {
	calls         int
	entriesAtCall int
}

func verifHandlerMode(o *verifOutcome, mode int) error {
	o.calls++
	o.entriesAtCall = rt.GetFlag("entries")
	switch mode {
	case 1:
		return errors.New("handler failed")
	case 2:
		if rt.Bool("panicWithError") {
			panic(errors.New("handler panics with an error value"))
		}
		panic("handler panics")
	}
	return nil
}

func verifNoPanic(f func()) (ok bool) {
	defer func() {
		if r := recover(); r != nil {
			ok = false
		}
	}()
	f()
	return true
}

func verifSetup() (blocked bool, mode int, fallbackSet bool) {
	blocked = rt.Bool("blocked")
	mode = rt.Choice(3)
	fallbackSet = rt.Bool("fallback")
	if blocked {
		rt.SetFlag("entryEnv", 2)
	} else {
		rt.SetFlag("entryEnv", 1)
	}
	return
}

// verifEnd checks the entry contract. errObserved: the adapter sees the handler's error (so it must trace it).
func verifEnd(blocked bool, mode int, o *verifOutcome, fallbackUsed, fallbackSet, panicked, errObserved bool) {
	rt.Reach("c19.returned")
	rt.Assert(rt.GetFlag("entries") == 1, "the adapter asks Sentinel for exactly one entry")
	if blocked {
		rt.Assert(!panicked, "blocked: no panic reaches the framework")
		rt.Assert(o.calls == 0, "blocked: the wrapped handler is not invoked")
		rt.Assert(rt.GetFlag("exits") == 0, "blocked: there is no entry to exit")
		rt.Assert(fallbackUsed == fallbackSet, "blocked: the configured fallback is produced, else the default rejection")
		return
	}
	rt.Assert(o.calls == 1 && o.entriesAtCall == 1, "admitted: the handler runs exactly once, after the entry was requested")
	rt.Assert(rt.GetFlag("exits") == 1, "admitted: the entry is exited exactly once on every path (handler error and panic included)")
	if errObserved {
		if mode == 1 {
			rt.Assert(rt.GetFlag("traces") == 1, "a handler error the adapter observes is traced")
		} else {
			rt.Assert(rt.GetFlag("traces") == 0, "no error is traced when the handler succeeds")
		}
	}
	rt.Assert(panicked == (mode == 2), "a handler panic propagates to the framework, nothing else panics")
}

type verifWriter struct {
	gin.ResponseWriter
	status  int
	written bool // an earlier middleware already committed the response header
}

func (w *verifWriter) Written() bool { return w.written }

func (w *verifWriter) WriteHeader(code int) { w.status = code }
func (w *verifWriter) WriteHeaderNow()      {}
func (w *verifWriter) Header() http.Header  { return http.Header{} }

func VerifC19Middleware() {
	blocked, mode, fallbackSet := verifSetup()
	if mode == 1 {
		mode = 0 // a gin handler returns no error
	}
	o := &verifOutcome{}
	fallbackUsed := false
	var opts []Option
	if fallbackSet {
		opts = append(opts, WithBlockFallback(func(ctx *gin.Context) {
			fallbackUsed = true
			ctx.AbortWithStatus(418)
		}))
	} else if rt.Bool("nilFallback") {
		opts = append(opts, WithBlockFallback(nil)) // an explicitly nil fallback counts as not configured
	}
	mw := SentinelMiddleware(opts...)
	wr := &verifWriter{written: rt.Bool("headerAlreadyWritten")}
	c := &gin.Context{Request: &http.Request{Method: "GET"}, Writer: wr}
	rt.Poke(c, "handlers", gin.HandlersChain{mw, func(*gin.Context) { verifHandlerMode(o, mode) }})
	rt.Poke(c, "index", int8(-1))
	panicked := !verifNoPanic(func() { c.Next() })
	if blocked {
		want := http.StatusTooManyRequests
		if fallbackSet {
			want = 418
		}
		rt.Assert(wr.status == want && c.IsAborted(), "blocked: the fallback's response, else 429, is produced and the chain is aborted")
	}
	verifEnd(blocked, mode, o, fallbackUsed, fallbackSet, panicked, false)
}
