package echo

import (
	"errors"
	"net/http"

	rt "github.com/alibaba/sentinel-golang/pkg/adapters/echo/zzverif/verifrt"
	"github.com/labstack/echo/v4"
)

// C19 (echo): the middleware; the handler's error is returned through the middleware, so it is observed.

type verifOutcome struct {
	calls         int
	entriesAtCall int
}

func verifHandlerMode(o *verifOutcome, mode int) error {
	o.calls++
	o.entriesAtCall = rt.GetFlag("entries")
	switch mode {
	case 1:
		return errors.New("handler failed")
	case 2:
		if rt.Bool("panicWithError") {
			panic(errors.New("handler panics with an error value"))
		}
		panic("handler panics")
	}
	return nil
}

func verifNoPanic(f func()) (ok bool) {
	defer func() {
		if r := recover(); r != nil {
			ok = false
		}
	}()
	f()
	return true
}

func verifSetup() (blocked bool, mode int, fallbackSet bool) {
	blocked = rt.Bool("blocked")
	mode = rt.Choice(3)
	fallbackSet = rt.Bool("fallback")
	if blocked {
		rt.SetFlag("entryEnv", 2)
	} else {
		rt.SetFlag("entryEnv", 1)
	}
	return
}

// verifEnd checks the entry contract. errObserved: the adapter sees the handler's error (so it must trace it).
func verifEnd(blocked bool, mode int, o *verifOutcome, fallbackUsed, fallbackSet, panicked, errObserved bool) {
	rt.Reach("c19.returned")
	rt.Assert(rt.GetFlag("entries") == 1, "the adapter asks Sentinel for exactly one entry")
	if blocked {
		rt.Assert(!panicked, "blocked: no panic reaches the framework")
		rt.Assert(o.calls == 0, "blocked: the wrapped handler is not invoked")
		rt.Assert(rt.GetFlag("exits") == 0, "blocked: there is no entry to exit")
		rt.Assert(fallbackUsed == fallbackSet, "blocked: the configured fallback is produced, else the default rejection")
		return
	}
	rt.Assert(o.calls == 1 && o.entriesAtCall == 1, "admitted: the handler runs exactly once, after the entry was requested")
	rt.Assert(rt.GetFlag("exits") == 1, "admitted: the entry is exited exactly once on every path (handler error and panic included)")
	if errObserved {
		if mode == 1 {
			rt.Assert(rt.GetFlag("traces") == 1, "a handler error the adapter observes is traced")
		} else {
			rt.Assert(rt.GetFlag("traces") == 0, "no error is traced when the handler succeeds")
		}
	}
	rt.Assert(panicked == (mode == 2), "a handler panic propagates to the framework, nothing else panics")
}

type verifCtx struct {
	echo.Context
	jsonStatus int
}

func (c *verifCtx) Request() *http.Request { return &http.Request{Method: "GET"} }
func (c *verifCtx) Path() string           { return "/p" }
func (c *verifCtx) JSON(code int, i interface{}) error {
	c.jsonStatus = code
	return nil
}

func VerifC19Middleware() {
	blocked, mode, fallbackSet := verifSetup()
	o := &verifOutcome{}
	fallbackUsed := false
	var opts []Option
	if fallbackSet {
		opts = append(opts, WithBlockFallback(func(ctx echo.Context) error {
			fallbackUsed = true
			return nil
		}))
	} else if rt.Bool("nilFallback") {
		opts = append(opts, WithBlockFallback(nil)) // an explicitly nil fallback counts as not configured
	}
	h := SentinelMiddleware(opts...)(func(c echo.Context) error { return verifHandlerMode(o, mode) })
	c := &verifCtx{}
	var err error
	panicked := !verifNoPanic(func() { err = h(c) })
	if blocked && !fallbackSet {
		rt.Assert(c.jsonStatus == http.StatusTooManyRequests, "blocked: the default rejection (429) is produced")
	}
	if !blocked && mode == 1 {
		rt.Assert(err != nil, "the handler's error is returned")
	}
	verifEnd(blocked, mode, o, fallbackUsed, fallbackSet, panicked, true)
}
