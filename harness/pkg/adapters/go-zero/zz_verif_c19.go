package go_zero

import (
	"context"
	"errors"
	"net/http"
	"net/url"
	"time"

	rt "github.com/alibaba/sentinel-golang/pkg/adapters/go-zero/zzverif/verifrt"
)

// C19 (go-zero): routing middleware and global middleware (net/http handlers: no error to observe).

type verifOutcome struct {
	calls         int
	entriesAtCall int
}

func verifHandlerMode(o *verifOutcome, mode int) error {
	o.calls++
	o.entriesAtCall = rt.GetFlag("entries")
	switch mode {
	case 1:
		return errors.New("handler failed")
	case 2:
		if rt.Bool("panicWithError") {
			panic(errors.New("handler panics with an error value"))
		}
		panic("handler panics")
	}
	return nil
}

func verifNoPanic(f func()) (ok bool) {
	defer func() {
		if r := recover(); r != nil {
			ok = false
		}
	}()
	f()
	return true
}

func verifSetup() (blocked bool, mode int, fallbackSet bool) {
	blocked = rt.Bool("blocked")
	mode = rt.Choice(3)
	fallbackSet = rt.Bool("fallback")
	if blocked {
		rt.SetFlag("entryEnv", 2)
	} else {
		rt.SetFlag("entryEnv", 1)
	}
	return
}

// verifEnd checks the entry contract. errObserved: the adapter sees the handler's error (so it must trace it).
func verifEnd(blocked bool, mode int, o *verifOutcome, fallbackUsed, fallbackSet, panicked, errObserved bool) {
	rt.Reach("c19.returned")
	rt.Assert(rt.GetFlag("entries") == 1, "the adapter asks Sentinel for exactly one entry")
	if blocked {
		rt.Assert(!panicked, "blocked: no panic reaches the framework")
		rt.Assert(o.calls == 0, "blocked: the wrapped handler is not invoked")
		rt.Assert(rt.GetFlag("exits") == 0, "blocked: there is no entry to exit")
		rt.Assert(fallbackUsed == fallbackSet, "blocked: the configured fallback is produced, else the default rejection")
		return
	}
	rt.Assert(o.calls == 1 && o.entriesAtCall == 1, "admitted: the handler runs exactly once, after the entry was requested")
	rt.Assert(rt.GetFlag("exits") == 1, "admitted: the entry is exited exactly once on every path (handler error and panic included)")
	if errObserved {
		if mode == 1 {
			rt.Assert(rt.GetFlag("traces") == 1, "a handler error the adapter observes is traced")
		} else {
			rt.Assert(rt.GetFlag("traces") == 0, "no error is traced when the handler succeeds")
		}
	}
	rt.Assert(panicked == (mode == 2), "a handler panic propagates to the framework, nothing else panics")
}

type verifWriter struct {
	status int
	wrote  bool
}

func (w *verifWriter) Header() http.Header         { return http.Header{} }
func (w *verifWriter) Write(b []byte) (int, error) { w.wrote = true; return len(b), nil }
func (w *verifWriter) WriteHeader(code int)        { w.status = code }

// verifCtx: the request's context; symbolically already done (the client went away, or its deadline passed)
type verifCtx struct{ done bool }

func (c *verifCtx) Deadline() (time.Time, bool) { return time.Time{}, false }
func (c *verifCtx) Done() <-chan struct{}       { return nil }
func (c *verifCtx) Err() error {
	if c.done {
		return context.Canceled
	}
	return nil
}
func (c *verifCtx) Value(key interface{}) interface{} { return nil }

func verifRequest() *http.Request {
	ctx := &verifCtx{done: rt.Bool("requestContextDone")}
	rt.RedirectCall("(*net/http.Request).Context", func(r *http.Request) context.Context { return ctx })
	return &http.Request{Method: "GET", URL: &url.URL{Path: "/p"}, Header: http.Header{}}
}

func VerifC19Routing() {
	blocked, mode, _ := verifSetup()
	if mode == 1 {
		mode = 0 // an http.HandlerFunc returns no error
	}
	o := &verifOutcome{}
	h := NewSentinelRouteMiddleware().Handle(func(w http.ResponseWriter, r *http.Request) { verifHandlerMode(o, mode) })
	wr := &verifWriter{}
	panicked := !verifNoPanic(func() { h(wr, verifRequest()) })
	if blocked {
		rt.Assert(wr.status == http.StatusTooManyRequests, "blocked: the default rejection (429) is produced")
	}
	verifEnd(blocked, mode, o, false, false, panicked, false)
}

func VerifC19Global() {
	blocked, mode, fallbackSet := verifSetup()
	if mode == 1 {
		mode = 0
	}
	o := &verifOutcome{}
	fallbackUsed := false
	var opts []Option
	if fallbackSet {
		opts = append(opts, WithBlockFallback(func(r *http.Request) (int, string) {
			fallbackUsed = true
			return 418, "fallback"
		}))
	}
	h := SentinelMiddleware(opts...)(func(w http.ResponseWriter, r *http.Request) { verifHandlerMode(o, mode) })
	wr := &verifWriter{}
	panicked := !verifNoPanic(func() { h(wr, verifRequest()) })
	if blocked {
		want := http.StatusTooManyRequests
		if fallbackSet {
			want = 418
		}
		rt.Assert(wr.status == want, "blocked: the fallback's status, else 429, is produced")
	}
	verifEnd(blocked, mode, o, fallbackUsed, fallbackSet, panicked, false)
}
