package fiber

import (
	"errors"

	rt "github.com/alibaba/sentinel-golang/pkg/adapters/fiber/zzverif/verifrt"
	"github.com/gofiber/fiber/v2"
)

// C19 (fiber): the middleware; ctx.Next() is where the wrapped handler runs (hooked; the error the
// framework returns from Next is not produced by the harness, so tracing is not asserted).

type verifOutcome struct {
	calls         int
	entriesAtCall int
}

func verifHandlerMode(o *verifOutcome, mode int) error {
	o.calls++
	o.entriesAtCall = rt.GetFlag("entries")
	switch mode {
	case 1:
		return errors.New("handler failed")
	case 2:
		if rt.Bool("panicWithError") {
			panic(errors.New("handler panics with an error value"))
		}
		panic("handler panics")
	}
	return nil
}

func verifNoPanic(f func()) (ok bool) {
	defer func() {
		if r := recover(); r != nil {
			ok = false
		}
	}()
	f()
	return true
}

func verifSetup() (blocked bool, mode int, fallbackSet bool) {
	blocked = rt.Bool("blocked")
	mode = rt.Choice(3)
	fallbackSet = rt.Bool("fallback")
	if blocked {
		rt.SetFlag("entryEnv", 2)
	} else {
		rt.SetFlag("entryEnv", 1)
	}
	return
}

// verifEnd checks the entry contract. errObserved: the adapter sees the handler's error (so it must trace it).
func verifEnd(blocked bool, mode int, o *verifOutcome, fallbackUsed, fallbackSet, panicked, errObserved bool) {
	rt.Reach("c19.returned")
	rt.Assert(rt.GetFlag("entries") == 1, "the adapter asks Sentinel for exactly one entry")
	if blocked {
		rt.Assert(!panicked, "blocked: no panic reaches the framework")
		rt.Assert(o.calls == 0, "blocked: the wrapped handler is not invoked")
		rt.Assert(rt.GetFlag("exits") == 0, "blocked: there is no entry to exit")
		rt.Assert(fallbackUsed == fallbackSet, "blocked: the configured fallback is produced, else the default rejection")
		return
	}
	rt.Assert(o.calls == 1 && o.entriesAtCall == 1, "admitted: the handler runs exactly once, after the entry was requested")
	rt.Assert(rt.GetFlag("exits") == 1, "admitted: the entry is exited exactly once on every path (handler error and panic included)")
	if errObserved {
		if mode == 1 {
			rt.Assert(rt.GetFlag("traces") == 1, "a handler error the adapter observes is traced")
		} else {
			rt.Assert(rt.GetFlag("traces") == 0, "no error is traced when the handler succeeds")
		}
	}
	rt.Assert(panicked == (mode == 2), "a handler panic propagates to the framework, nothing else panics")
}

func VerifC19Middleware() {
	blocked, mode, fallbackSet := verifSetup()
	if mode == 1 {
		mode = 0
	}
	o := &verifOutcome{}
	fallbackUsed := false
	var opts []Option
	if fallbackSet {
		opts = append(opts, WithBlockFallback(func(ctx *fiber.Ctx) error {
			fallbackUsed = true
			return nil
		}))
	} else if rt.Bool("nilFallback") {
		opts = append(opts, WithBlockFallback(nil)) // an explicitly nil fallback counts as not configured
	}
	mw := SentinelMiddleware(opts...)
	verifLocals()
	rt.HookCall("(*github.com/gofiber/fiber/v2.Ctx).Next", func() { verifHandlerMode(o, mode) })
	c := &fiber.Ctx{}
	panicked := !verifNoPanic(func() { mw(c) })
	verifEnd(blocked, mode, o, fallbackUsed, fallbackSet, panicked, false)
}

// verifLocals: the per-request store of fiber.Ctx (Locals), modelled as a map: a value set under a key
// is what a later read of that key returns.
func verifLocals() {
	store := map[interface{}]interface{}{}
	rt.RedirectCall("(*github.com/gofiber/fiber/v2.Ctx).Locals", func(c *fiber.Ctx, key interface{}, value ...interface{}) interface{} {
		if len(value) == 0 {
			return store[key]
		}
		store[key] = value[0]
		return value[0]
	})
}

// VerifC19Nested: one request passes through two instances of the middleware (app-wide and group-level,
// different resources): each instance asks for one entry and exits exactly its own, on every path.
func VerifC19Nested() {
	rt.SetFlag("entryEnv", 1)
	mode := rt.Choice(3)
	if mode == 1 {
		mode = 0
	}
	o := &verifOutcome{}
	verifLocals()
	outer := SentinelMiddleware(WithResourceExtractor(func(ctx *fiber.Ctx) string { return "outer" }))
	inner := SentinelMiddleware(WithResourceExtractor(func(ctx *fiber.Ctx) string { return "inner" }))
	c := &fiber.Ctx{}
	depth := 0
	rt.HookCall("(*github.com/gofiber/fiber/v2.Ctx).Next", func() {
		depth++
		if depth == 1 {
			inner(c)
		} else {
			verifHandlerMode(o, mode)
		}
	})
	panicked := !verifNoPanic(func() { outer(c) })
	rt.Reach("c19.returned")
	rt.Assert(rt.GetFlag("entries") == 2, "each middleware instance asks Sentinel for exactly one entry")
	rt.Assert(o.calls == 1, "admitted: the handler runs exactly once")
	rt.Assert(rt.GetFlag("exitedEntries") == 2 && rt.GetFlag("exits") == 2, "admitted: each of the two entries is exited, exactly once, on every path (handler panic included)")
	rt.Assert(panicked == (mode == 2), "a handler panic propagates to the framework, nothing else panics")
}
