package micro

import (
	"context"
	"errors"

	"github.com/alibaba/sentinel-golang/core/base"
	rt "github.com/alibaba/sentinel-golang/pkg/adapters/micro/zzverif/verifrt"
	"github.com/micro/go-micro/v2/client"
	"github.com/micro/go-micro/v2/server"
)

// C19 (go-micro): client wrapper (Call, Stream; normal and outlier branch), server handler wrapper,
// server stream wrapper.

type verifCReq struct{ client.Request }

func (verifCReq) Method() string  { return "M" }
func (verifCReq) Service() string { return "S" }

type verifSReq struct{ server.Request }

func (verifSReq) Method() string  { return "M" }
func (verifSReq) Service() string { return "S" }

type verifOutcome struct {
	calls         int
	entriesAtCall int
}

func verifHandlerMode(o *verifOutcome, mode int) error {
	o.calls++
	o.entriesAtCall = rt.GetFlag("entries")
	switch mode {
	case 1:
		return errors.New("handler failed")
	case 2:
		if rt.Bool("panicWithError") {
			panic(errors.New("handler panics with an error value"))
		}
		panic("handler panics")
	}
	return nil
}

type verifClient struct {
	client.Client
	o    *verifOutcome
	mode int
}

func (c *verifClient) Call(ctx context.Context, req client.Request, rsp interface{}, opts ...client.CallOption) error {
	return verifHandlerMode(c.o, c.mode)
}
func (c *verifClient) Stream(ctx context.Context, req client.Request, opts ...client.CallOption) (client.Stream, error) {
	return nil, verifHandlerMode(c.o, c.mode)
}

type verifStream struct {
	server.Stream
	sent int
}

func (s *verifStream) Request() server.Request  { return verifSReq{} }
func (s *verifStream) Send(v interface{}) error { s.sent++; return nil }
func (s *verifStream) Context() context.Context { return context.Background() }

func verifNoPanic(f func()) (ok bool) {
	defer func() {
		if r := recover(); r != nil {
			ok = false
		}
	}()
	f()
	return true
}

func verifSetup() (blocked bool, mode int, fallbackSet bool) {
	blocked = rt.Bool("blocked")
	mode = rt.Choice(3)
	fallbackSet = rt.Bool("fallback")
	if blocked {
		rt.SetFlag("entryEnv", 2)
	} else {
		rt.SetFlag("entryEnv", 1)
	}
	return
}

// traceDelegated: the outlier branch hands error tracing to a go-micro call wrapper (WithCallWrapper), which
// the harness's client does not run, so tracing is not asserted there.
func verifEnd(blocked bool, mode int, o *verifOutcome, err error, fallbackUsed, fallbackSet, panicked bool, traceDelegated bool) {
	known, region := "none", false
	rt.Reach("c19.returned")
	rt.AssertExcept(rt.GetFlag("entries") == 1, "the adapter asks Sentinel for exactly one entry", known, region)
	if blocked {
		rt.AssertExcept(!panicked, "blocked: no panic reaches the framework", known, region)
		rt.AssertExcept(o.calls == 0, "blocked: the wrapped handler is not invoked", known, region)
		rt.Assert(rt.GetFlag("exits") == 0, "blocked: there is no entry to exit")
		rt.AssertExcept(fallbackUsed == fallbackSet, "blocked: the configured fallback is produced, else the default rejection", known, region)
		if !fallbackSet {
			rt.AssertExcept(err != nil, "blocked: the default rejection is an error", known, region)
		}
		return
	}
	rt.Assert(o.calls == 1 && o.entriesAtCall == 1, "admitted: the handler runs exactly once, after the entry was requested")
	rt.Assert(rt.GetFlag("exits") == 1, "admitted: the entry is exited exactly once on every path (handler error and panic included)")
	if mode == 1 {
		rt.Assert(err != nil, "a handler error is returned")
		if !traceDelegated {
			rt.Assert(rt.GetFlag("traces") == 1, "a handler error is traced")
		}
	} else {
		rt.Assert(rt.GetFlag("traces") == 0, "no error is traced when the handler succeeds")
	}
	rt.Assert(panicked == (mode == 2), "a handler panic propagates to the framework, nothing else panics")
}

func VerifC19ClientCall() {
	blocked, mode, fallbackSet := verifSetup()
	outlierOn := rt.Bool("outlier")
	o := &verifOutcome{}
	fallbackUsed := false
	opts := []Option{WithEnableOutlier(func(context.Context) bool { return outlierOn })}
	if fallbackSet {
		opts = append(opts, WithClientBlockFallback(func(context.Context, client.Request, *base.BlockError) error {
			fallbackUsed = true
			return nil
		}))
	}
	w := &clientWrapper{Client: &verifClient{o: o, mode: mode}, Opts: opts}
	var err error
	panicked := !verifNoPanic(func() { err = w.Call(context.Background(), verifCReq{}, nil) })
	// the outlier branch by design does not trace the handler error itself (the outlier slots do) and has no fallback
	verifEnd(blocked, mode, o, err, fallbackUsed, fallbackSet && !outlierOn, panicked, outlierOn)
}

func VerifC19ClientStream() {
	blocked, mode, fallbackSet := verifSetup()
	outlierOn := rt.Bool("outlier")
	o := &verifOutcome{}
	fallbackUsed := false
	opts := []Option{WithEnableOutlier(func(context.Context) bool { return outlierOn })}
	if fallbackSet {
		opts = append(opts, WithStreamClientBlockFallback(func(context.Context, client.Request, *base.BlockError) (client.Stream, error) {
			fallbackUsed = true
			return nil, nil
		}))
	}
	w := &clientWrapper{Client: &verifClient{o: o, mode: mode}, Opts: opts}
	var err error
	panicked := !verifNoPanic(func() { _, err = w.Stream(context.Background(), verifCReq{}) })
	verifEnd(blocked, mode, o, err, fallbackUsed, fallbackSet && !outlierOn, panicked, outlierOn)
}

func VerifC19ServerHandler() {
	blocked, mode, fallbackSet := verifSetup()
	o := &verifOutcome{}
	fallbackUsed := false
	var opts []Option
	if fallbackSet {
		opts = append(opts, WithServerBlockFallback(func(context.Context, server.Request, *base.BlockError) error {
			fallbackUsed = true
			return nil
		}))
	}
	h := NewHandlerWrapper(opts...)(func(ctx context.Context, req server.Request, rsp interface{}) error {
		return verifHandlerMode(o, mode)
	})
	var err error
	panicked := !verifNoPanic(func() { err = h(context.Background(), verifSReq{}, nil) })
	verifEnd(blocked, mode, o, err, fallbackUsed, fallbackSet, panicked, false)
}

// The stream wrapper cannot wrap the handler (framework design): only "entry requested, exited once when
// admitted, rejection sent when blocked, no panic for any option combination" is asserted.
func VerifC19ServerStream() {
	blocked := rt.Bool("blocked")
	if blocked {
		rt.SetFlag("entryEnv", 2)
	} else {
		rt.SetFlag("entryEnv", 1)
	}
	var opts []Option
	extract, streamExtract, fb, streamFb := rt.Bool("extract"), rt.Bool("streamExtract"), rt.Bool("fallback"), rt.Bool("streamFallback")
	if extract {
		opts = append(opts, WithServerResourceExtractor(func(context.Context, server.Request) string { return "x" }))
	}
	if streamExtract {
		opts = append(opts, WithStreamServerResourceExtractor(func(server.Stream) string { return "y" }))
	}
	if fb {
		opts = append(opts, WithServerBlockFallback(func(context.Context, server.Request, *base.BlockError) error { return nil }))
	}
	fbUsed := false
	if streamFb {
		opts = append(opts, WithStreamServerBlockFallback(func(s server.Stream, b *base.BlockError) server.Stream { fbUsed = true; return s }))
	}
	st := &verifStream{}
	panicked := !verifNoPanic(func() { NewStreamWrapper(opts...)(st) })
	rt.Reach("c19.returned")
	_, _ = extract, fb // the wrapper must consult the stream options only
	rt.AssertExcept(!panicked, "no panic reaches the framework for any option combination", "none", false)
	rt.AssertExcept(rt.GetFlag("entries") == 1, "the adapter asks Sentinel for exactly one entry", "none", false)
	if blocked {
		rt.Assert(rt.GetFlag("exits") == 0, "blocked: there is no entry to exit")
		rt.AssertExcept(fbUsed == streamFb && (streamFb || st.sent == 1), "blocked: the configured stream fallback is produced, else the rejection is sent", "none", false)
	} else {
		rt.AssertExcept(rt.GetFlag("exits") == 1, "admitted: the entry is exited exactly once", "none", false)
	}
}
