package file

import (
	"os"

	"github.com/alibaba/sentinel-golang/ext/datasource"
	rt "github.com/alibaba/sentinel-golang/zzverif/verifrt"
	"github.com/fsnotify/fsnotify"
)

// C18 (file datasource): the real RefreshableFileDataSource (Initialize, its watcher goroutine,
// ReadSource, Base.Handle, DefaultPropertyHandler) over the in-memory file system and a modelled
// fsnotify watcher: the harness edits the file and posts the event inotify would deliver; the
// goroutine runs as a thread until it blocks on its select again (rt.Settle).

const verifPath = "/d/rules.json"

var verifContents = []string{"AAAA", "BBBB", "CC", "DD", "EEE", "FFFFF", "GG", "H"} // consecutive versions of equal length included (and the model reports a constant modification time)

func VerifC18File() {
	rt.MemFS()
	rt.SetFlag("go-threads", 1)
	rt.SetClockMs(2000000000000)
	w := &fsnotify.Watcher{Events: make(chan fsnotify.Event, 4), Errors: make(chan error, 1)}
	watching := false
	rt.RedirectCall("github.com/fsnotify/fsnotify.NewWatcher", func() (*fsnotify.Watcher, error) { return w, nil })
	rt.RedirectCall("(*github.com/fsnotify/fsnotify.Watcher).Add", func(_ *fsnotify.Watcher, name string) error {
		if rt.MemLookup(name) == nil {
			return os.ErrNotExist
		}
		watching = true
		return nil
	})
	rt.RedirectCall("(*github.com/fsnotify/fsnotify.Watcher).Remove", func(_ *fsnotify.Watcher, name string) error {
		watching = false
		return nil
	})
	rt.RedirectCall("(*github.com/fsnotify/fsnotify.Watcher).Close", func(_ *fsnotify.Watcher) error {
		watching = false
		return nil
	})
	// the handler: the real DefaultPropertyHandler; the converter yields the payload text, the updater records it
	var inForce interface{}
	updates := 0
	h := datasource.NewDefaultPropertyHandler(func(src []byte) (interface{}, error) {
		if len(src) == 0 {
			return nil, nil
		}
		return string(src), nil
	}, func(data interface{}) error {
		inForce = data
		updates++
		return nil
	})
	put := func(content string) {
		f, _ := rt.ModelOsCreate(verifPath)
		rt.ModelFileWrite(f, []byte(content))
		rt.ModelFileClose(f)
	}
	next := 0
	put(verifContents[next])
	ds := NewFileDataSource(verifPath, h)
	if err := ds.Initialize(); err != nil {
		rt.Assert(false, "Initialize succeeds on an existing file")
		return
	}
	rt.Settle()
	rt.Assert(inForce == interface{}(verifContents[0]), "after Initialize the file's content is in force")
	K := rt.Param("K")
	gone := false // the file was removed, or renamed away with nothing put in its place: the datasource stops
	for k := 0; k < K && !gone; k++ {
		if !watching {
			break
		}
		switch rt.Choice(5) {
		case 0: // write
			next++
			put(verifContents[next])
			w.Events <- fsnotify.Event{Name: verifPath, Op: fsnotify.Write}
		case 1: // truncate to empty
			put("")
			w.Events <- fsnotify.Event{Name: verifPath, Op: fsnotify.Write}
		case 2: // remove
			rt.ModelOsRemove(verifPath)
			gone = true
			w.Events <- fsnotify.Event{Name: verifPath, Op: fsnotify.Remove}
		case 3: // replaced backup-style: the old file is renamed away and a new one is already at the path
			next++
			rt.ModelOsRemove(verifPath)
			put(verifContents[next])
			w.Events <- fsnotify.Event{Name: verifPath, Op: fsnotify.Rename}
		case 4: // renamed away, nothing at the path
			rt.ModelOsRemove(verifPath)
			gone = true
			w.Events <- fsnotify.Event{Name: verifPath, Op: fsnotify.Rename}
		}
		rt.Settle()
		rt.Reach("c18file.event")
		if f := rt.MemLookup(verifPath); f != nil {
			if len(f.Data) == 0 {
				rt.Assert(inForce == nil, "an emptied file clears the rules")
			} else {
				rt.Assert(inForce == interface{}(string(f.Data)), "after each write (or replacement) of the file its current content is in force")
			}
		} else {
			rt.Assert(inForce == nil, "when the file is removed (or renamed away) the rules are cleared")
		}
	}
	rt.Reach("c18file.done")
}
