package datasource

import (
	"github.com/alibaba/sentinel-golang/core/flow"
	"github.com/alibaba/sentinel-golang/core/isolation"
	rt "github.com/alibaba/sentinel-golang/zzverif/verifrt"
)

// C18 — datasource payloads are applied faithfully or rejected, never half-applied (reduced claim:
// the handler/updater state machine over abstract payloads; DESIGN §5 C18). The converter is a
// harness function: payload byte -> a fixed, symbolically chosen decode outcome.

type verifOutcome struct {
	kind int // 0 decode error, 1 decoded list
	iso  []*isolation.Rule
	flw  []*flow.Rule
}

func verifMkIso() []*isolation.Rule {
	n := rt.Choice(3)
	l := make([]*isolation.Rule, 0, n)
	for i := 0; i < n; i++ {
		if rt.Bool("null") {
			l = append(l, nil) // a JSON null element
			continue
		}
		l = append(l, &isolation.Rule{Resource: []string{"A", "B", ""}[rt.Choice(3)], MetricType: isolation.MetricType(rt.Choice(2)), Threshold: rt.U32n("thr", 4)})
	}
	return l
}

func verifMkFlow() []*flow.Rule {
	n := rt.Choice(3)
	l := make([]*flow.Rule, 0, n)
	for i := 0; i < n; i++ {
		if rt.Bool("null") {
			l = append(l, nil)
			continue
		}
		r := &flow.Rule{Resource: []string{"A", "B", ""}[rt.Choice(3)], Threshold: float64(rt.U32n("thr", 4))}
		if rt.Bool("neg") {
			r.Threshold = -1
		}
		l = append(l, r)
	}
	return l
}

func verifIsoCopy(l []*isolation.Rule) []*isolation.Rule {
	c := make([]*isolation.Rule, 0, len(l))
	for _, r := range l {
		if r == nil {
			c = append(c, nil)
		} else {
			x := *r
			c = append(c, &x)
		}
	}
	return c
}

func verifFlowCopy(l []*flow.Rule) []*flow.Rule {
	c := make([]*flow.Rule, 0, len(l))
	for _, r := range l {
		if r == nil {
			c = append(c, nil)
		} else {
			x := *r
			c = append(c, &x)
		}
	}
	return c
}

func VerifC18() {
	rt.SetClockMs(2000000000000)
	useFlow := rt.Param("MOD") == 1
	// two payloads p (0) and q (1) with fixed decode outcomes; payload 2 is the empty payload
	var outs [2]verifOutcome
	for i := 0; i < 2; i++ {
		if rt.Bool("undecodable") {
			outs[i] = verifOutcome{kind: 0}
		} else if rt.Bool("converterPanics") {
			outs[i] = verifOutcome{kind: 2} // e.g. a parser that dereferences a JSON null element
		} else if useFlow {
			outs[i] = verifOutcome{kind: 1, flw: verifMkFlow()}
		} else {
			outs[i] = verifOutcome{kind: 1, iso: verifMkIso()}
		}
	}
	conv := func(src []byte) (interface{}, error) {
		if len(src) == 0 {
			return nil, nil
		}
		o := outs[src[0]]
		if o.kind == 0 {
			return nil, NewError(ConvertSourceError, "undecodable")
		}
		if o.kind == 2 {
			panic("the converter panics on this payload")
		}
		// every delivery decodes to freshly allocated objects, as a JSON decoder does
		if useFlow {
			return verifFlowCopy(o.flw), nil
		}
		return verifIsoCopy(o.iso), nil
	}
	var h PropertyHandler
	if useFlow {
		h = NewFlowRulesHandler(conv)
	} else {
		h = NewIsolationRulesHandler(conv)
	}
	// reference: valid rules of the last successfully decoded payload, per resource, in order
	wantIso := map[string][]isolation.Rule{}
	wantFlow := map[string][]flow.Rule{}
	K := rt.Param("K")
	for k := 0; k < K; k++ {
		id := rt.Choice(3)
		var err error
		if id == 2 {
			err = h.Handle(nil)
			wantIso, wantFlow = map[string][]isolation.Rule{}, map[string][]flow.Rule{}
			rt.Assert(err == nil, "an empty payload clears the rules without error")
			rt.Reach("c18.empty")
		} else {
			err = h.Handle([]byte{byte(id)})
			if outs[id].kind == 0 {
				rt.Assert(err != nil, "an undecodable payload returns an error")
				rt.Reach("c18.undecodable")
			} else if outs[id].kind == 2 {
				rt.Reach("c18.converter-panic") // nothing escaped Handle (an escaping panic ends the path as a violation); the rules stay as they were
			} else {
				rt.Assert(err == nil, "a decodable payload is applied without error")
				wantIso, wantFlow = map[string][]isolation.Rule{}, map[string][]flow.Rule{}
				for _, r := range outs[id].iso {
					if r != nil && isolation.IsValidRule(r) == nil {
						wantIso[r.Resource] = append(wantIso[r.Resource], *r)
					}
				}
				for _, r := range outs[id].flw {
					if r != nil && flow.IsValidRule(r) == nil {
						wantFlow[r.Resource] = append(wantFlow[r.Resource], *r)
					}
				}
				rt.Reach("c18.applied")
			}
		}
		for _, res := range []string{"A", "B", ""} {
			if useFlow {
				got, want := flow.GetRulesOfResource(res), wantFlow[res]
				rt.Assert(len(got) == len(want), "the rules in force are exactly the valid rules of the last decodable payload (undecodable payloads leave them untouched)")
				if len(got) == len(want) {
					for i := range want {
						rt.Assert(got[i] == want[i], "rules in force equal the decoded rules, in order")
					}
				}
			} else {
				got, want := isolation.GetRulesOfResource(res), wantIso[res]
				rt.Assert(len(got) == len(want), "the rules in force are exactly the valid rules of the last decodable payload (undecodable payloads leave them untouched)")
				if len(got) == len(want) {
					for i := range want {
						rt.Assert(got[i] == want[i], "rules in force equal the decoded rules, in order")
					}
				}
			}
		}
	}
	rt.Reach("c18.done")
}
