package datasource

import (
	"encoding/json"
	"errors"
	"io"

	"github.com/alibaba/sentinel-golang/core/circuitbreaker"
	"github.com/alibaba/sentinel-golang/core/flow"
	"github.com/alibaba/sentinel-golang/core/hotspot"
	"github.com/alibaba/sentinel-golang/core/isolation"
	"github.com/alibaba/sentinel-golang/core/system"
	rt "github.com/alibaba/sentinel-golang/zzverif/verifrt"
)

// C18, the five real parsers and updaters (DESIGN §5 C18). encoding/json works through reflection and
// is not executed: json.Unmarshal is a stub with its documented contract — it returns an error, or fills
// the target with an arbitrary list of the target's element type (null elements, arbitrary field values).
// Everything around it is the real code: the compliance check, the hot-parameter conversion with its
// specific-item parsing, the handler's de-duplication, the updaters and the rule managers.

type verifPOut struct {
	kind int // 0 decode error, 1 decoded list, 2 a complete list followed by more bytes (not a JSON document: undecodable)
	iso  []*isolation.Rule
	flw  []*flow.Rule
	cb   []*circuitbreaker.Rule
	sys  []*system.Rule
	hs   []*HotspotRule
}

var verifPOuts [2]verifPOut

var verifPRes = []string{"A", "B", ""}

// json.Unmarshal: the whole input must be one JSON value.
func verifUnmarshal(src []byte, v interface{}) error { return verifFill(src, v, false) }

// json.NewDecoder(r).Decode: decodes the next value of the stream and leaves what follows unread.
var verifCurSrc []byte // the payload being handled (the model does not read through the io.Reader)

func verifNewDecoder(r io.Reader) *json.Decoder { return new(json.Decoder) }

func verifDecode(d *json.Decoder, v interface{}) error { return verifFill(verifCurSrc, v, true) }

func verifFill(src []byte, v interface{}, stream bool) error {
	o := verifPOuts[src[0]]
	if o.kind == 0 || (o.kind == 2 && !stream) {
		return errors.New("invalid character")
	}
	// every delivery decodes to freshly allocated objects. encoding/json decodes into what the target already
	// holds (elements within the capacity of a re-sliced buffer included) and leaves fields absent from the
	// input as they are: the stub's "exactly the described list" outcome presupposes a target without old elements
	switch p := v.(type) {
	case *[]*isolation.Rule:
		for _, e := range (*p)[:cap(*p)] {
			rt.Assert(e == nil, "the decode target holds no element of an earlier payload (encoding/json would merge into it)")
		}
		*p = verifIsoCopy(o.iso)
	case *[]*flow.Rule:
		for _, e := range (*p)[:cap(*p)] {
			rt.Assert(e == nil, "the decode target holds no element of an earlier payload (encoding/json would merge into it)")
		}
		*p = verifFlowCopy(o.flw)
	case *[]*circuitbreaker.Rule:
		for _, e := range (*p)[:cap(*p)] {
			rt.Assert(e == nil, "the decode target holds no element of an earlier payload (encoding/json would merge into it)")
		}
		c := make([]*circuitbreaker.Rule, 0, len(o.cb))
		for _, r := range o.cb {
			if r == nil {
				c = append(c, nil)
			} else {
				x := *r
				c = append(c, &x)
			}
		}
		*p = c
	case *[]*system.Rule:
		for _, e := range (*p)[:cap(*p)] {
			rt.Assert(e == nil, "the decode target holds no element of an earlier payload (encoding/json would merge into it)")
		}
		c := make([]*system.Rule, 0, len(o.sys))
		for _, r := range o.sys {
			if r == nil {
				c = append(c, nil)
			} else {
				x := *r
				c = append(c, &x)
			}
		}
		*p = c
	case *[]*HotspotRule:
		for _, e := range (*p)[:cap(*p)] {
			rt.Assert(e == nil, "the decode target holds no element of an earlier payload (encoding/json would merge into it)")
		}
		c := make([]*HotspotRule, 0, len(o.hs))
		for _, r := range o.hs {
			if r == nil {
				c = append(c, nil)
			} else {
				x := *r
				x.SpecificItems = append([]SpecificValue(nil), r.SpecificItems...)
				c = append(c, &x)
			}
		}
		*p = c
	default:
		rt.Assert(false, "a parser decodes into a list of its module's wire type")
	}
	return nil
}

// wire items: parsable and unparsable values of every kind, and an unsupported kind
var verifItems = []SpecificValue{{ValKind: KindInt, ValStr: "7"}, {ValKind: KindInt, ValStr: "13800138000"}, {ValKind: KindInt, ValStr: "x"}, {ValKind: KindString, ValStr: "x"}, {ValKind: KindString, ValStr: "7"},
	{ValKind: KindBool, ValStr: "true"}, {ValKind: KindBool, ValStr: "x"}, {ValKind: KindFloat64, ValStr: "1.5"}, {ValKind: KindFloat64, ValStr: "7"}, {ValKind: KindFloat64, ValStr: "x"}, {ValKind: KindSum, ValStr: "7"}}

// verifMkOut: the decode outcome of a payload: up to max elements (null, valid, invalid in the module's ways);
// rich: the first hot-parameter rule also varies its metric type and behaviour and carries up to two specific items.
func verifMkOut(mod int, rich bool, max int) verifPOut {
	if rt.Bool("undecodable") {
		return verifPOut{kind: 0}
	}
	o := verifPOut{kind: 1}
	if rt.Bool("trailingBytes") {
		o.kind = 2
	}
	n := rt.Choice(max + 1)
	for i := 0; i < n; i++ {
		null := rt.Bool("null")
		res := verifPRes[rt.Choice(3)]
		switch mod {
		case 0:
			if null {
				o.iso = append(o.iso, nil)
			} else {
				o.iso = append(o.iso, &isolation.Rule{Resource: res, MetricType: isolation.MetricType(rt.Choice(2)), Threshold: rt.U32n("thr", 4)})
			}
		case 1:
			if null {
				o.flw = append(o.flw, nil)
			} else {
				r := &flow.Rule{Resource: res, Threshold: float64(rt.U32n("thr", 4))}
				if rt.Bool("neg") {
					r.Threshold = -1
				}
				o.flw = append(o.flw, r)
			}
		case 2:
			if null {
				o.cb = append(o.cb, nil)
			} else {
				o.cb = append(o.cb, &circuitbreaker.Rule{Resource: res, Strategy: circuitbreaker.Strategy(rt.Choice(4)), RetryTimeoutMs: rt.U32n("retry", 3),
					StatIntervalMs: 1000 * rt.U32n("interval", 1), MinRequestAmount: rt.U64n("min", 3), Threshold: float64(rt.U32n("thr", 3))})
			}
		case 3:
			if null {
				o.sys = append(o.sys, nil)
			} else {
				// metric types: load, cpu usage (trigger above 1 invalid), one past the last (invalid); trigger -1..2
				r := &system.Rule{MetricType: []system.MetricType{system.Load, system.CpuUsage, system.MetricTypeSize}[rt.Choice(3)], TriggerCount: float64(int(rt.U32n("trig", 2)) - 1),
					Strategy: system.AdaptiveStrategy(rt.Choice(2))}
				o.sys = append(o.sys, r)
			}
		case 4:
			if null {
				o.hs = append(o.hs, nil)
			} else {
				// every field has its own value, so a field that is dropped or lands in the wrong place shows;
				// a negative threshold and a zero duration (QPS) make the rule invalid
				r := &HotspotRule{ID: "id1", Resource: res, MetricType: hotspot.QPS, ControlBehavior: hotspot.Reject,
					ParamIndex: 3, Threshold: 11, MaxQueueingTimeMs: 13, BurstCount: 17, DurationInSec: 19, ParamsMaxCapacity: 23}
				if rich && i == 0 {
					r.MetricType, r.ControlBehavior = hotspot.MetricType(rt.Choice(2)), hotspot.ControlBehavior(rt.Choice(2))
				}
				switch rt.Choice(3) {
				case 1:
					r.Threshold = -1
				case 2:
					r.DurationInSec = 0
				}
				m := 0
				if rich && i == 0 {
					m = rt.Choice(3) // the first rule of the rich payload carries up to two specific items
				}
				for k := 0; k < m; k++ {
					it := verifItems[rt.Choice(len(verifItems))]
					it.Threshold = int64(rt.U32n("sthr", 3))
					r.SpecificItems = append(r.SpecificItems, it)
				}
				o.hs = append(o.hs, r)
			}
		}
	}
	return o
}

// verifWantItems: what the wire items describe, written from the documentation of SpecificValue.
func verifWantItems(items []SpecificValue) map[interface{}]int64 {
	m := map[interface{}]int64{}
	for _, it := range items {
		switch it.ValKind {
		case KindInt:
			if it.ValStr == "7" {
				m[int(7)] = it.Threshold
			} else if it.ValStr == "13800138000" { // an int value is a Go int (64 bits on the supported platforms)
				m[int(13800138000)] = it.Threshold
			}
		case KindString:
			m[it.ValStr] = it.Threshold
		case KindBool:
			if it.ValStr == "true" {
				m[true] = it.Threshold
			}
		case KindFloat64:
			if it.ValStr == "7" {
				m[float64(7)] = it.Threshold
			} else if it.ValStr == "1.5" {
				m[float64(1.5)] = it.Threshold
			}
		}
	}
	return m
}

func VerifC18Parsers() {
	rt.SetClockMs(2000000000000)
	rt.SetFlag("fold-sprintf", 1)
	rt.RedirectCall("encoding/json.Unmarshal", verifUnmarshal)
	rt.RedirectCall("encoding/json.NewDecoder", verifNewDecoder)
	rt.RedirectCall("(*encoding/json.Decoder).Decode", verifDecode)
	rt.SetFlag("strict:encoding/json", 1) // any other function of the package: not decided
	mod := rt.Param("MOD")
	if rt.Param("RICH") != 0 {
		verifC18ParseOnly(mod)
		return
	}
	verifPOuts[0] = verifMkOut(mod, false, 2)
	verifPOuts[1] = verifMkOut(mod, false, 1) // the second payload only has to differ from the first
	var h PropertyHandler
	switch mod {
	case 0:
		h = NewIsolationRulesHandler(IsolationRuleJsonArrayParser)
	case 1:
		h = NewFlowRulesHandler(FlowRuleJsonArrayParser)
	case 2:
		h = NewCircuitBreakerRulesHandler(CircuitBreakerRuleJsonArrayParser)
	case 3:
		h = NewSystemRulesHandler(SystemRuleJsonArrayParser)
	case 4:
		h = NewHotSpotParamRulesHandler(HotSpotParamRuleJsonArrayParser)
	}
	cur := -1 // the payload whose rules are in force (-1: none)
	K := rt.Param("K")
	for k := 0; k < K; k++ {
		id := rt.Choice(3)
		if id == 2 {
			err := h.Handle(nil)
			rt.Assert(err == nil, "an empty payload clears the rules without error")
			cur = -1
			rt.Reach("c18p.empty")
		} else {
			verifCurSrc = []byte{byte(id), '[', ']'}
			err := h.Handle(verifCurSrc)
			if verifPOuts[id].kind != 1 {
				rt.Assert(err != nil, "an undecodable payload returns an error")
				rt.Reach("c18p.undecodable")
			} else {
				rt.Assert(err == nil, "a decodable payload is applied without error")
				cur = id
				rt.Reach("c18p.applied")
			}
		}
		var o verifPOut
		if cur >= 0 {
			o = verifPOuts[cur]
		}
		switch mod {
		case 0:
			for _, res := range verifPRes {
				var want []isolation.Rule
				for _, r := range o.iso {
					if r != nil && r.Resource == res && isolation.IsValidRule(r) == nil {
						want = append(want, *r)
					}
				}
				got := isolation.GetRulesOfResource(res)
				rt.Assert(len(got) == len(want), "the rules in force are exactly the valid rules of the last decodable payload")
				for i := range want {
					if i < len(got) {
						rt.Assert(got[i] == want[i], "rules in force equal the decoded rules, in order")
					}
				}
			}
		case 1:
			for _, res := range verifPRes {
				var want []flow.Rule
				for _, r := range o.flw {
					if r != nil && r.Resource == res && flow.IsValidRule(r) == nil {
						want = append(want, *r)
					}
				}
				got := flow.GetRulesOfResource(res)
				rt.Assert(len(got) == len(want), "the rules in force are exactly the valid rules of the last decodable payload")
				for i := range want {
					if i < len(got) {
						rt.Assert(got[i] == want[i], "rules in force equal the decoded rules, in order")
					}
				}
			}
		case 2:
			for _, res := range verifPRes {
				var want []circuitbreaker.Rule
				for _, r := range o.cb {
					// a strategy without a registered generator cannot be enforced: such a rule counts as invalid (as in the C13 check)
					if r != nil && r.Resource == res && circuitbreaker.IsValidRule(r) == nil && r.Strategy <= circuitbreaker.ErrorCount {
						want = append(want, *r)
					}
				}
				got := circuitbreaker.GetRulesOfResource(res)
				rt.Assert(len(got) == len(want), "the rules in force are exactly the valid rules of the last decodable payload")
				for i := range want {
					if i < len(got) {
						rt.Assert(got[i] == want[i], "rules in force equal the decoded rules, in order")
					}
				}
			}
		case 3:
			got := system.GetRules()
			for mt := 0; mt < 6; mt++ {
				var want, have []system.Rule
				for _, r := range o.sys {
					if r != nil && int(r.MetricType) == mt && system.IsValidSystemRule(r) == nil {
						want = append(want, *r)
					}
				}
				for _, r := range got {
					if int(r.MetricType) == mt {
						have = append(have, r)
					}
				}
				rt.Assert(len(have) == len(want), "the rules in force are exactly the valid rules of the last decodable payload")
				for i := range want {
					if i < len(have) {
						rt.Assert(have[i] == want[i], "rules in force equal the decoded rules, in order")
					}
				}
			}
		case 4:
			for _, res := range verifPRes {
				var want []*HotspotRule
				for _, r := range o.hs {
					if r == nil || r.Resource != res {
						continue
					}
					probe := &hotspot.Rule{ID: r.ID, Resource: r.Resource, MetricType: r.MetricType, ControlBehavior: r.ControlBehavior, ParamIndex: r.ParamIndex, Threshold: r.Threshold,
						MaxQueueingTimeMs: r.MaxQueueingTimeMs, BurstCount: r.BurstCount, DurationInSec: r.DurationInSec, ParamsMaxCapacity: r.ParamsMaxCapacity}
					if hotspot.IsValidRule(probe) == nil {
						want = append(want, r)
					}
				}
				got := hotspot.GetRulesOfResource(res)
				rt.Assert(len(got) == len(want), "the rules in force are exactly the valid rules of the last decodable payload")
				for i, wr := range want {
					if i >= len(got) {
						break
					}
					g := got[i]
					rt.Assert(g.ID == wr.ID && g.Resource == wr.Resource && g.MetricType == wr.MetricType && g.ControlBehavior == wr.ControlBehavior && g.ParamIndex == wr.ParamIndex &&
						g.Threshold == wr.Threshold && g.MaxQueueingTimeMs == wr.MaxQueueingTimeMs && g.BurstCount == wr.BurstCount && g.DurationInSec == wr.DurationInSec &&
						g.ParamsMaxCapacity == wr.ParamsMaxCapacity, "a hot-parameter rule in force has every field of the wire rule it was decoded from")
					wi := verifWantItems(wr.SpecificItems)
					rt.Assert(len(g.SpecificItems) == len(wi), "the specific items in force are those the wire items describe (unparsable and unsupported ones dropped)")
					for key, thr := range wi {
						v, ok := g.SpecificItems[key]
						rt.Assert(ok && v == thr, "every specific item has the value and threshold the wire item gives")
					}
					rt.Reach("c18p.hotspot-rule")
				}
			}
		}
	}
	rt.Reach("c18p.done")
}

// verifC18ParseOnly: one call of the module's parser on a payload with a rich decode outcome; what it
// returns describes exactly the decoded wire rules (for hot-parameter rules: after the conversion).
func verifC18ParseOnly(mod int) {
	verifPOuts[0] = verifMkOut(mod, true, 2)
	o := verifPOuts[0]
	parsers := []PropertyConverter{IsolationRuleJsonArrayParser, FlowRuleJsonArrayParser, CircuitBreakerRuleJsonArrayParser, SystemRuleJsonArrayParser, HotSpotParamRuleJsonArrayParser}
	verifCurSrc = []byte{0, '[', ']'}
	v, err := parsers[mod](verifCurSrc)
	rt.Reach("c18p.parsed")
	if o.kind != 1 {
		rt.Assert(err != nil && v == nil, "an undecodable payload yields an error and no value")
		return
	}
	rt.Assert(err == nil, "a decodable payload parses without error")
	switch mod {
	case 0:
		l, ok := v.([]*isolation.Rule)
		rt.Assert(ok && len(l) == len(o.iso), "the parser returns the decoded list")
		for i := range l {
			rt.Assert((l[i] == nil) == (o.iso[i] == nil) && (l[i] == nil || *l[i] == *o.iso[i]), "element by element")
		}
	case 1:
		l, ok := v.([]*flow.Rule)
		rt.Assert(ok && len(l) == len(o.flw), "the parser returns the decoded list")
		for i := range l {
			rt.Assert((l[i] == nil) == (o.flw[i] == nil) && (l[i] == nil || *l[i] == *o.flw[i]), "element by element")
		}
	case 2:
		l, ok := v.([]*circuitbreaker.Rule)
		rt.Assert(ok && len(l) == len(o.cb), "the parser returns the decoded list")
		for i := range l {
			rt.Assert((l[i] == nil) == (o.cb[i] == nil) && (l[i] == nil || *l[i] == *o.cb[i]), "element by element")
		}
	case 3:
		l, ok := v.([]*system.Rule)
		rt.Assert(ok && len(l) == len(o.sys), "the parser returns the decoded list")
		for i := range l {
			rt.Assert((l[i] == nil) == (o.sys[i] == nil) && (l[i] == nil || *l[i] == *o.sys[i]), "element by element")
		}
	case 4:
		l, ok := v.([]*hotspot.Rule)
		rt.Assert(ok && len(l) == len(o.hs), "the parser returns one rule per decoded wire rule")
		for i := range l {
			wr := o.hs[i]
			if wr == nil {
				rt.Assert(l[i] == nil, "a null wire rule stays a null rule (ignored as invalid by the rule manager)")
				continue
			}
			g := l[i]
			rt.Assert(g != nil, "a wire rule converts to a rule")
			if g == nil {
				continue
			}
			rt.Assert(g.ID == wr.ID && g.Resource == wr.Resource && g.MetricType == wr.MetricType && g.ControlBehavior == wr.ControlBehavior && g.ParamIndex == wr.ParamIndex &&
				g.Threshold == wr.Threshold && g.MaxQueueingTimeMs == wr.MaxQueueingTimeMs && g.BurstCount == wr.BurstCount && g.DurationInSec == wr.DurationInSec &&
				g.ParamsMaxCapacity == wr.ParamsMaxCapacity, "a converted hot-parameter rule has every field of the wire rule")
			wi := verifWantItems(wr.SpecificItems)
			rt.Assert(len(g.SpecificItems) == len(wi), "the specific items are those the wire items describe (unparsable and unsupported ones dropped)")
			for key, thr := range wi {
				got, ok := g.SpecificItems[key]
				rt.Assert(ok && got == thr, "every specific item has the value and threshold the wire item gives")
			}
			rt.Reach("c18p.hotspot-rule")
		}
	}
}
