package api

import (
	"github.com/alibaba/sentinel-golang/core/base"
	"github.com/alibaba/sentinel-golang/core/hotspot"
	"github.com/alibaba/sentinel-golang/core/stat"
	rt "github.com/alibaba/sentinel-golang/zzverif/verifrt"
)

// C06 — hot-parameter concurrency is capped per value and its counters conserved (DESIGN §5 C06).
// Chain: real prepare slot, real hotspot slot, real statistic slot, real hotspot concurrency slot.

type verifLive6 struct {
	e      *base.SentinelEntry
	res, v int
	nargs  int
	exited bool
}

func VerifC06() {
	rt.SetClockMs(2000000000000)
	if rt.Param("POOLANY") != 0 {
		rt.SetFlag("pool-any", 1)
	}
	sc := base.NewSlotChain()
	sc.AddStatPrepareSlot(stat.DefaultResourceNodePrepareSlot)
	sc.AddRuleCheckSlot(hotspot.DefaultSlot)
	sc.AddStatSlot(stat.DefaultSlot)
	sc.AddStatSlot(hotspot.DefaultConcurrencyStatSlot)
	names := []string{"H", "G"}
	vals := []interface{}{int(7), "seven"}
	// resource H: general threshold + optionally a specific threshold for value 0; resource G: its own rule
	thrH, thrG := rt.I64n("thrH", 3), rt.I64n("thrG", 3)
	ruleH := &hotspot.Rule{Resource: "H", MetricType: hotspot.Concurrency, ParamIndex: 0, Threshold: thrH, ParamsMaxCapacity: 10}
	specific := rt.Bool("specific")
	sthr := int64(0)
	if specific {
		sthr = rt.I64n("sthr", 3)
		ruleH.SpecificItems = map[interface{}]int64{vals[0]: sthr}
	}
	ruleG := &hotspot.Rule{Resource: "G", MetricType: hotspot.Concurrency, ParamIndex: -1, Threshold: thrG, ParamsMaxCapacity: 10}
	rules := []*hotspot.Rule{ruleH, ruleG}
	if rt.Param("TWO") != 0 {
		// both resources get a first rule that selects an argument no entry carries (an index out of range): it never applies, the second one still does
		rules = []*hotspot.Rule{
			{Resource: "H", MetricType: hotspot.Concurrency, ParamIndex: 5, Threshold: 1, ParamsMaxCapacity: 10}, ruleH,
			{Resource: "G", MetricType: hotspot.Concurrency, ParamIndex: 7, Threshold: 1, ParamsMaxCapacity: 10}, ruleG}
	}
	if _, err := hotspot.LoadRules(rules); err != nil {
		rt.Assert(false, "LoadRules returned an error")
		return
	}
	thrOf := func(res, v int) int64 {
		if res == 1 {
			return thrG
		}
		if specific && v == 0 {
			return sthr
		}
		return thrH
	}
	var es []*verifLive6
	var live [2][2]int64
	K := rt.Param("K")
	for k := 0; k < K; k++ {
		if len(es) > 0 && rt.Bool("exit") {
			l := es[rt.Choice(len(es))]
			l.e.Exit()
			if !l.exited {
				l.exited = true
				if l.v != 2 {
					live[l.res][l.v]--
				}
			}
			rt.Reach("c06.exit")
		} else {
			r, v := rt.Choice(2), rt.Choice(2+rt.Param("NOARGS"))
			var e *base.SentinelEntry
			var blk *base.BlockError
			nargs := 2
			if v == 2 { // an entry without arguments: no rule selects a value, it is admitted and counted nowhere
				e, blk = Entry(names[r], WithSlotChain(sc))
				rt.Assert(e != nil && blk == nil, "an entry without arguments is not subject to parameter rules (also on a recycled context)")
				if e != nil {
					es = append(es, &verifLive6{e: e, res: r, v: 2, exited: false})
				}
			} else if r == 0 {
				e, blk = Entry(names[r], WithSlotChain(sc), WithArgs(vals[v], "other"))
			} else if rt.Bool("oneArg") {
				nargs = 1
				e, blk = Entry(names[r], WithSlotChain(sc), WithArgs(vals[v])) // the last argument is also the first: index -1 reaches exactly the start of the list
			} else {
				e, blk = Entry(names[r], WithSlotChain(sc), WithArgs("other", vals[v])) // G selects the last argument
			}
			rt.Reach("c06.entry")
			if v != 2 {
				want := live[r][v] < thrOf(r, v)
				rt.AssertExcept((e != nil) == want, "admitted iff the entries in flight for the value are fewer than its threshold", "D18", thrOf(r, v) == 0)
				if blk != nil {
					rt.Assert(blk.BlockType() == base.BlockTypeHotSpotParamFlow, "rejected with a hotspot block")
				}
				if e != nil {
					es = append(es, &verifLive6{e: e, res: r, v: v, nargs: nargs})
					live[r][v]++
				}
			}
		}
		// per-value in-flight figure equals the live entries for the value
		for r := 0; r < 2; r++ {
			tcs := hotspot.VerifControllers(names[r])
			if len(tcs) != 1+rt.Param("TWO") {
				rt.Assert(false, "one controller per rule of the resource")
				continue
			}
			tcs = tcs[len(tcs)-1:] // the rule that selects the entries' argument
			for v := 0; v < 2; v++ {
				ptr, ok := tcs[0].BoundMetric().ConcurrencyCounter.Get(vals[v])
				var got int64
				if ok && ptr != nil {
					got = *ptr
				}
				rt.Assert(got == live[r][v], "the per-value in-flight figure equals the live entries admitted with that value")
			}
		}
		for _, l := range es {
			if !l.exited && l.v == 2 {
				rt.Assert(len(l.e.Context().Input.Args) == 0, "a live entry without arguments has none")
			} else if !l.exited {
				args := l.e.Context().Input.Args
				idx := 0
				if l.res == 1 {
					idx = l.nargs - 1
				}
				rt.Assert(len(args) == l.nargs && args[idx] == vals[l.v], "a live entry keeps the arguments it was entered with")
			}
		}
	}
	rt.Reach("c06.done")
}
