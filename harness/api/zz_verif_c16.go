package api

import (
	"errors"

	"github.com/alibaba/sentinel-golang/core/base"
	rt "github.com/alibaba/sentinel-golang/zzverif/verifrt"
)

// C16 — slot chain runs in order, short-circuits on the first block, fails open (DESIGN §5 C16, B.5).
// Slots of all three kinds with symbolic, colliding order values, inserted in index order; each
// slot's behaviour is symbolic; every call is appended to one log.

type verifLog struct {
	calls []int // kind*100 + id, kinds: 1 prepare, 2 check, 3 passed, 4 blocked, 5 completed, 6 exit handler
}

func (l *verifLog) add(kind, id int) { l.calls = append(l.calls, kind*100+id) }

type verifS16 struct {
	id    int
	order uint32
	mode  int // prepare/stat: 0 ok, 1 panic; check: 0 pass result, 1 nil, 2 block, 3 panic, 4 marks the pooled result blocked but returns nil, 5 marks it and panics
	// how a check slot blocks: 0 fresh result, 1 in place with message, 2 in place with rule and snapshot, 3 in place with the type only
	inplace int
	cpanic  bool // statistic slot: panics in OnCompleted
	log     *verifLog
	blkOK   bool
}

var verifMsgs = []string{"blocked-by-0", "blocked-by-1", "blocked-by-2", "blocked-by-3"}

type verifRule16 struct{}

func (verifRule16) String() string       { return "rule16" }
func (verifRule16) ResourceName() string { return "R16" }

type verifPrep16 struct{ verifS16 }

func (s *verifPrep16) Order() uint32 { return s.order }
func (s *verifPrep16) Prepare(ctx *base.EntryContext) {
	s.log.add(1, s.id)
	if s.mode == 1 {
		panic("prepare panics")
	}
}

type verifCheck16 struct{ verifS16 }

func (s *verifCheck16) Order() uint32 { return s.order }
func (s *verifCheck16) Check(ctx *base.EntryContext) *base.TokenResult {
	s.log.add(2, s.id)
	switch s.mode {
	case 1:
		return nil
	case 2:
		switch s.inplace {
		case 1: // in place, as the built-in slots do
			ctx.RuleCheckResult.ResetToBlockedWithMessage(base.BlockTypeFlow+base.BlockType(s.id), verifMsgs[s.id])
			return ctx.RuleCheckResult
		case 2:
			ctx.RuleCheckResult.ResetToBlockedWithCause(base.BlockTypeFlow+base.BlockType(s.id), verifMsgs[s.id], verifRule16{}, s.id)
			return ctx.RuleCheckResult
		case 3: // in place with the block type only
			ctx.RuleCheckResult.ResetToBlocked(base.BlockTypeFlow + base.BlockType(s.id))
			return ctx.RuleCheckResult
		}
		return base.NewTokenResultBlockedWithMessage(base.BlockTypeFlow+base.BlockType(s.id), verifMsgs[s.id])
	case 3:
		panic("check panics")
	case 4: // writes a block into the pooled result but does not return it: the slot passes
		ctx.RuleCheckResult.ResetToBlockedWithMessage(base.BlockTypeFlow+base.BlockType(s.id), verifMsgs[s.id])
		return nil
	case 5: // the same, then panics: contained, the request passes
		ctx.RuleCheckResult.ResetToBlockedWithMessage(base.BlockTypeFlow+base.BlockType(s.id), verifMsgs[s.id])
		panic("check panics after marking the result")
	}
	if ctx.RuleCheckResult.IsBlocked() {
		return nil // a passing slot does not hand on a block that an earlier slot left in the pooled result
	}
	return ctx.RuleCheckResult
}

type verifStat16 struct{ verifS16 }

func (s *verifStat16) Order() uint32 { return s.order }
func (s *verifStat16) OnEntryPassed(ctx *base.EntryContext) {
	s.log.add(3, s.id)
	if s.mode == 1 {
		panic("stat slot panics")
	}
}
func (s *verifStat16) OnEntryBlocked(ctx *base.EntryContext, b *base.BlockError) {
	s.log.add(4, s.id)
	s.blkOK = b != nil
	if s.mode == 1 {
		panic("stat slot panics")
	}
}
func (s *verifStat16) OnCompleted(ctx *base.EntryContext) {
	s.log.add(5, s.id)
	if s.cpanic {
		panic("stat slot panics on completion")
	}
}

// verifStableOrder: ids 0..n-1 ordered by ascending order value, insertion order on ties
// (written as a selection of minima, unlike the implementation's sort).
func verifStableOrder(orders []uint32) []int {
	n := len(orders)
	used := make([]bool, n)
	out := make([]int, 0, n)
	for len(out) < n {
		best := -1
		for i := 0; i < n; i++ {
			if !used[i] && (best < 0 || orders[i] < orders[best]) {
				best = i
			}
		}
		used[best] = true
		out = append(out, best)
	}
	return out
}

// verifOrd: a symbolic order value in {0, 1, 2, MaxUint32} (two symbolic bits; 3 is mapped to the top of the range arithmetically)
func verifOrd(name string) uint32 {
	x := rt.U32n(name, 2)
	return x + (x/3)*(4294967295-3)
}

func VerifC16() {
	rt.SetClockMs(2000000000000)
	NP, NR, NS := rt.Param("NP"), rt.Param("NR"), rt.Param("NS")
	panics := rt.Param("PANICS") != 0
	log := &verifLog{}
	sc := base.NewSlotChain()
	var ps []*verifPrep16
	var cs []*verifCheck16
	var ss []*verifStat16
	var po, co, so []uint32
	for i := 0; i < NP; i++ {
		s := &verifPrep16{verifS16{id: i, order: verifOrd("pord"), log: log}}
		if panics && rt.Bool("ppanic") {
			s.mode = 1
		}
		ps, po = append(ps, s), append(po, s.order)
		sc.AddStatPrepareSlot(s)
	}
	for i := 0; i < NR; i++ {
		s := &verifCheck16{verifS16{id: i, order: verifOrd("cord"), log: log}}
		if panics {
			s.mode = rt.Choice(6)
		} else {
			s.mode = rt.Choice(4)
			if s.mode == 3 {
				s.mode = 4
			}
		}
		if s.mode == 2 {
			s.inplace = rt.Choice(3)
		}
		cs, co = append(cs, s), append(co, s.order)
		sc.AddRuleCheckSlot(s)
	}
	for i := 0; i < NS; i++ {
		s := &verifStat16{verifS16{id: i, order: verifOrd("sord"), log: log}}
		if panics && rt.Bool("spanic") {
			s.mode = 1
		}
		if panics && rt.Param("CPANIC") != 0 && rt.Bool("cpanic") {
			s.cpanic = true
		}
		ss, so = append(ss, s), append(so, s.order)
		sc.AddStatSlot(s)
	}
	// ---- reference run (Appendix B.5) ----
	var want []int
	prepPanic, statPanic, blockedPanic := false, false, false
	for _, i := range verifStableOrder(po) {
		want = append(want, 100+i)
		if ps[i].mode == 1 {
			prepPanic = true
			break
		}
	}
	blocker := -1
	if !prepPanic {
		for _, i := range verifStableOrder(co) {
			want = append(want, 200+i)
			if cs[i].mode == 2 {
				blocker = i
				break
			}
			if cs[i].mode == 3 || cs[i].mode == 5 {
				break // contained: the request passes
			}
		}
		for _, i := range verifStableOrder(so) {
			if blocker >= 0 {
				want = append(want, 400+i)
				if ss[i].mode == 1 {
					statPanic, blockedPanic = true, true // a panic while the block is being reported: the request is admitted
					break
				}
			} else {
				want = append(want, 300+i)
				if ss[i].mode == 1 {
					statPanic = true
					break
				}
			}
		}
	}
	// ---- real run ----
	e, blk := Entry("R16", WithSlotChain(sc))
	rt.Reach("c16.entered")
	rt.Assert((e != nil) != (blk != nil), "exactly one of entry and block error")
	rt.Assert((blk != nil) == (blocker >= 0 && !blockedPanic), "blocked iff some rule-check slot blocked and no slot panicked; a request is admitted after any slot panic")
	same := len(log.calls) == len(want)
	if same {
		for i := range want {
			same = same && log.calls[i] == want[i]
		}
	}
	rt.Assert(same, "slots run in ascending order (insertion order on ties), rule checks stop at the first block, every statistic slot is told the outcome once")
	if blk != nil && blocker >= 0 && !blockedPanic {
		rt.Assert(blk.BlockMsg() == verifMsgs[blocker] && blk.BlockType() == base.BlockTypeFlow+base.BlockType(blocker), "the first blocking slot determines the block error")
		rt.Assert((blk.TriggeredRule() != nil) == (cs[blocker].inplace == 2), "the block error carries the rule of the blocking slot, if it gave one")
		for _, s := range ss {
			rt.Assert(s.blkOK, "statistic slots receive the block error")
		}
	}
	n0 := len(log.calls)
	hmode := 0
	if e != nil {
		if panics {
			hmode = rt.Choice(3)
		} else {
			hmode = rt.Choice(2)
		}
		e.WhenExit(func(en *base.SentinelEntry, ctx *base.EntryContext) error {
			log.add(6, 0)
			switch hmode {
			case 1:
				return errors.New("handler fails")
			case 2:
				panic("handler panics")
			}
			return nil
		})
		e.Exit()
		rt.Reach("c16.exited")
		var wantExit []int
		wantExit = append(wantExit, 600)
		if hmode != 2 && !prepPanic {
			for _, i := range verifStableOrder(so) {
				wantExit = append(wantExit, 500+i)
				if ss[i].cpanic {
					break // contained by Exit; the remaining statistic slots are not told
				}
			}
		}
		if !statPanic && hmode != 2 {
			sameX := len(log.calls)-n0 == len(wantExit)
			if sameX {
				for i := range wantExit {
					sameX = sameX && log.calls[n0+i] == wantExit[i]
				}
			}
			rt.Assert(sameX, "on Exit the handlers run, then every statistic slot is told of the completion once, in order (only for entries recorded as passed)")
		}
		n1 := len(log.calls)
		e.Exit()
		rt.Assert(len(log.calls) == n1, "a second Exit does nothing")
	}
	// ---- a second entry recycles the pooled context and options ----
	for _, s := range cs {
		s.mode = 0
	}
	for _, s := range ps {
		s.mode = 0
	}
	for _, s := range ss {
		s.mode, s.cpanic = 0, false
	}
	block2 := len(cs) > 0 && rt.Bool("block2")
	if block2 {
		cs[len(cs)-1].mode = 2 // blocked by another slot, in place, with the block type only
		cs[len(cs)-1].inplace = 3
	}
	n2 := len(log.calls)
	e2, blk2 := Entry("R16b", WithSlotChain(sc))
	rt.Assert((blk2 != nil) == block2 && (e2 != nil) == !block2, "second entry: blocked iff a slot blocks it, whatever happened to the entry whose pooled context it reuses")
	if e2 != nil {
		e2.Exit()
	}
	var want2 []int
	for _, i := range verifStableOrder(po) {
		want2 = append(want2, 100+i)
	}
	for _, i := range verifStableOrder(co) {
		want2 = append(want2, 200+i)
		if cs[i].mode == 2 {
			break
		}
	}
	for _, i := range verifStableOrder(so) {
		if block2 {
			want2 = append(want2, 400+i)
		} else {
			want2 = append(want2, 300+i)
		}
	}
	if !block2 {
		for _, i := range verifStableOrder(so) {
			want2 = append(want2, 500+i)
		}
	}
	same2 := len(log.calls)-n2 == len(want2)
	if same2 {
		for i := range want2 {
			same2 = same2 && log.calls[n2+i] == want2[i]
		}
	}
	if blk2 != nil {
		rt.Assert(blk2.BlockType() == base.BlockTypeFlow+base.BlockType(len(cs)-1) && blk2.BlockMsg() == "" && blk2.TriggeredRule() == nil && blk2.TriggeredValue() == nil,
			"second entry: the block error carries only what its own blocking slot gave (nothing of an earlier entry on the recycled context)")
	}
	rt.Assert(same2, "second entry (recycled context): every slot runs in order, statistic slots are told passed and completed (or blocked) exactly once")
	// ---- two overlapping entries after all that: each has a pooled context of its own, so each is told of its own
	// passage and completion (a context handed back twice by an earlier Exit would be shared by the two) ----
	for _, s := range cs {
		s.mode, s.inplace = 0, 0
	}
	n3 := len(log.calls)
	e3, _ := Entry("R16c", WithSlotChain(sc))
	e4, _ := Entry("R16d", WithSlotChain(sc))
	if e3 == nil || e4 == nil {
		rt.Assert(false, "overlapping entries: both pass when no slot blocks")
		return
	}
	e3.Exit()
	e4.Exit()
	var want3 []int
	for k := 0; k < 2; k++ {
		for _, i := range verifStableOrder(po) {
			want3 = append(want3, 100+i)
		}
		for _, i := range verifStableOrder(co) {
			want3 = append(want3, 200+i)
		}
		for _, i := range verifStableOrder(so) {
			want3 = append(want3, 300+i)
		}
	}
	for k := 0; k < 2; k++ {
		for _, i := range verifStableOrder(so) {
			want3 = append(want3, 500+i)
		}
	}
	same3 := len(log.calls)-n3 == len(want3)
	if same3 {
		for i := range want3 {
			same3 = same3 && log.calls[n3+i] == want3[i]
		}
	}
	rt.Reach("c16.overlap")
	rt.Assert(same3, "two overlapping entries after an earlier exit: every slot runs for each, statistic slots are told of each passage and each completion once")
	if blk != nil && blocker >= 0 {
		rt.Reach("c16.blockerror-stable")
		rt.Assert(blk.BlockMsg() == verifMsgs[blocker] && blk.BlockType() == base.BlockTypeFlow+base.BlockType(blocker), "the block error handed to the caller is unchanged after other entries ran")
		rt.Assert(blk2 == nil || blk2 != blk, "distinct block errors for distinct calls")
	}
	rt.Reach("c16.done")
}
