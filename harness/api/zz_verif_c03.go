package api

import (
	"github.com/alibaba/sentinel-golang/core/base"
	"github.com/alibaba/sentinel-golang/core/circuitbreaker"
	"github.com/alibaba/sentinel-golang/core/stat"
	rt "github.com/alibaba/sentinel-golang/zzverif/verifrt"
)

// C03 (several breakers on one resource, through api.Entry/Exit): every breaker must admit for the
// request to pass; a breaker that moved to half-open for a request that another breaker then blocked
// is rolled back to open (with its deadline unchanged) when the blocked entry exits; a completion
// feeds every breaker; listeners see exactly these transitions.

type verifCbListener struct {
	log []int // prev*10+to, states: 0 closed, 1 half-open, 2 open
}

func (l *verifCbListener) OnTransformToClosed(prev circuitbreaker.State, rule circuitbreaker.Rule) {
	l.log = append(l.log, int(prev)*10+int(circuitbreaker.Closed))
}
func (l *verifCbListener) OnTransformToOpen(prev circuitbreaker.State, rule circuitbreaker.Rule, s interface{}) {
	l.log = append(l.log, int(prev)*10+int(circuitbreaker.Open))
}
func (l *verifCbListener) OnTransformToHalfOpen(prev circuitbreaker.State, rule circuitbreaker.Rule) {
	l.log = append(l.log, int(prev)*10+int(circuitbreaker.HalfOpen))
}

func VerifC03Slot() {
	now := uint64(2000000000000)
	rt.SetClockMs(now)
	sc := base.NewSlotChain()
	sc.AddStatPrepareSlot(stat.DefaultResourceNodePrepareSlot)
	sc.AddRuleCheckSlot(circuitbreaker.DefaultSlot)
	sc.AddStatSlot(circuitbreaker.DefaultMetricStatSlot)
	mk := func(thr float64, retry uint32) *circuitbreaker.Rule {
		return &circuitbreaker.Rule{Resource: "R", Strategy: circuitbreaker.ErrorCount, RetryTimeoutMs: retry, MinRequestAmount: 0, StatIntervalMs: 1000, Threshold: thr}
	}
	if _, err := circuitbreaker.LoadRules([]*circuitbreaker.Rule{mk(1, 1000), mk(2, 5000)}); err != nil {
		rt.Assert(false, "LoadRules failed")
		return
	}
	cbs := circuitbreaker.VerifBreakers("R")
	if len(cbs) != 2 {
		rt.Assert(false, "two breakers")
		return
	}
	lis := &verifCbListener{}
	circuitbreaker.ClearStateChangeListeners()
	circuitbreaker.RegisterStateChangeListeners(lis)
	// symbolic pre-state of each breaker: 0 closed, 1 open not due, 2 open due
	var kind [2]int
	var dl [2]uint64
	for i := 0; i < 2; i++ {
		kind[i] = rt.Choice(3)
		switch kind[i] {
		case 1:
			dl[i] = now + 1 + uint64(rt.U32n("due", 16))
		case 2:
			dl[i] = now - uint64(rt.U32n("overdue", 16))
		}
		if kind[i] != 0 {
			circuitbreaker.VerifForceOpen(cbs[i], dl[i])
		}
	}
	e, blk := Entry("R", WithSlotChain(sc))
	rt.Reach("c03.slot")
	wantBlocked := kind[0] == 1 || kind[1] == 1
	rt.Assert((blk != nil) == wantBlocked, "the request is rejected iff some breaker is open and its retry timeout has not elapsed")
	if blk != nil {
		rt.Assert(blk.BlockType() == base.BlockTypeCircuitBreaking, "rejected with a circuit-breaking block")
		// breaker 0 may have started a probe (open and due) before breaker 1 blocked: it must be open again, deadline unchanged
		for i := 0; i < 2; i++ {
			if kind[i] == 0 {
				rt.Assert(cbs[i].CurrentState() == circuitbreaker.Closed, "a closed breaker stays closed")
			} else {
				rt.Assert(cbs[i].CurrentState() == circuitbreaker.Open, "a probe started for a request that another breaker blocked is rolled back to open")
				rt.Assert(circuitbreaker.VerifDeadline(cbs[i]) == dl[i], "the rollback keeps the retry deadline")
			}
		}
		if kind[0] == 2 && kind[1] == 1 {
			rt.Reach("c03.rollback")
			rt.Assert(len(lis.log) == 2 && lis.log[0] == 21 && lis.log[1] == 12, "listeners observe open->half-open and the rollback half-open->open, each once")
		} else {
			rt.Assert(len(lis.log) == 0, "no transition is reported when no probe was started")
		}
		return
	}
	// admitted: due breakers are now half-open (this request is their probe)
	nProbe := 0
	for i := 0; i < 2; i++ {
		if kind[i] == 2 {
			nProbe++
			rt.Assert(cbs[i].CurrentState() == circuitbreaker.HalfOpen, "an open breaker whose timeout elapsed admits one probe and is half-open")
		}
	}
	rt.Assert(len(lis.log) == nProbe, "one open->half-open report per probing breaker")
	failed := rt.Bool("failed")
	if failed {
		TraceError(e, &verifErr{1})
	}
	e.Exit()
	for i := 0; i < 2; i++ {
		switch {
		case kind[i] == 2 && failed:
			rt.Assert(cbs[i].CurrentState() == circuitbreaker.Open && circuitbreaker.VerifDeadline(cbs[i]) == now+uint64([]uint32{1000, 5000}[i]), "a failed probe re-opens the breaker for a full timeout")
		case kind[i] == 2:
			rt.Assert(cbs[i].CurrentState() == circuitbreaker.Closed, "a successful probe closes the breaker (ProbeNum 0)")
		case failed && i == 0: // closed, threshold 1, one error
			rt.Assert(cbs[i].CurrentState() == circuitbreaker.Open, "a closed breaker opens when the error count reaches its threshold")
		default:
			rt.Assert(cbs[i].CurrentState() == circuitbreaker.Closed, "a closed breaker below its threshold stays closed")
		}
	}
}

// VerifC12Straggler (C12, slot level, two threads): breaker A is open and due, breaker B open and not
// due. One goroutine sends a request (A starts a probe, B blocks it, the blocked entry exits and A's
// rollback hook runs); another completes a straggler successfully on A. The transitions reported for
// A must chain (each starts where the previous one ended) from Open to A's final state, whatever the
// interleaving, and a breaker the straggler closed is not re-opened by the blocked probe's exit.
func VerifC12Straggler() {
	now := uint64(2000000000000)
	rt.SetClockMs(now)
	sc := base.NewSlotChain()
	sc.AddStatPrepareSlot(stat.DefaultResourceNodePrepareSlot)
	sc.AddRuleCheckSlot(circuitbreaker.DefaultSlot)
	sc.AddStatSlot(circuitbreaker.DefaultMetricStatSlot)
	mk := func(thr float64, retry uint32) *circuitbreaker.Rule {
		return &circuitbreaker.Rule{Resource: "R", Strategy: circuitbreaker.ErrorCount, RetryTimeoutMs: retry, MinRequestAmount: 0, StatIntervalMs: 1000, Threshold: thr}
	}
	if _, err := circuitbreaker.LoadRules([]*circuitbreaker.Rule{mk(1, 1000), mk(2, 5000)}); err != nil {
		rt.Assert(false, "LoadRules failed")
		return
	}
	cbs := circuitbreaker.VerifBreakers("R")
	if len(cbs) != 2 {
		rt.Assert(false, "two breakers")
		return
	}
	lis := &verifCbListener{}
	circuitbreaker.ClearStateChangeListeners()
	circuitbreaker.RegisterStateChangeListeners(lis)
	circuitbreaker.VerifForceOpen(cbs[0], now-uint64(rt.U32n("overdue", 8)))
	circuitbreaker.VerifForceOpen(cbs[1], now+1+uint64(rt.U32n("due", 8)))
	// warm the pools and the statistic node so that the request path below is the steady-state one
	stat.GetOrCreateResourceNode("R", base.ResTypeCommon)
	var blk *base.BlockError
	rt.Spawn(func() {
		_, blk = Entry("R", WithSlotChain(sc))
	})
	rt.Spawn(func() {
		cbs[0].OnRequestComplete(0, nil) // a request admitted before the trip completes successfully now
	})
	rt.Join()
	rt.Reach("c12.straggler")
	rt.Assert(blk != nil, "the request is rejected (breaker B is open and not due)")
	prev := int(circuitbreaker.Open)
	for _, t := range lis.log { // only breaker A can report: B stays open
		rt.Assert(t/10 == prev, "every reported transition starts in the state the previous one ended in")
		prev = t % 10
	}
	rt.Assert(int(cbs[0].CurrentState()) == prev, "the reported transitions end in the breaker's state")
	rt.Assert(cbs[1].CurrentState() == circuitbreaker.Open, "the breaker that blocked stays open")
}
