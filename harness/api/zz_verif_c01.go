package api

import (
	"github.com/alibaba/sentinel-golang/core/base"
	"github.com/alibaba/sentinel-golang/core/stat"
	rt "github.com/alibaba/sentinel-golang/zzverif/verifrt"
)

// C01 — Entry/Exit accounting is conserved and correctly attributed (DESIGN §5 C01, Appendix B.5).
// Chain: real prepare slot, a harness rule-check slot whose behaviour per call is symbolic
// (pass | nil | block | panic), the real statistic slot, a recording statistic slot.

type verifErr struct{ id int }

func (e *verifErr) Error() string { return "verif error" }

type verifRuleSlot struct{ mode int }

func (s *verifRuleSlot) Order() uint32 { return 1 }
func (s *verifRuleSlot) Check(ctx *base.EntryContext) *base.TokenResult {
	switch s.mode {
	case 1:
		return nil
	case 2:
		return base.NewTokenResultBlockedWithCause(base.BlockTypeFlow, "verif", nil, nil)
	case 3:
		panic("rule evaluation panics")
	}
	return ctx.RuleCheckResult
}

// verifPrepSlot: a prepare slot (after the real one) that panics when told to.
type verifPrepSlot struct{ boom bool }

func (s *verifPrepSlot) Order() uint32 { return 60000 }
func (s *verifPrepSlot) Prepare(ctx *base.EntryContext) {
	if s.boom {
		panic("prepare slot panics")
	}
}

type verifRecorder struct {
	passed, blocked, completed int
	lastRes                    string
	lastBatch                  uint32
	lastErr                    error
	lastEntry                  *base.SentinelEntry
	lastRt                     uint64
	boom                       bool // panics after recording that the entry passed (a statistic slot behind the built-in one)
}

func (r *verifRecorder) Order() uint32 { return 9000 }
func (r *verifRecorder) OnEntryPassed(ctx *base.EntryContext) {
	r.passed++
	r.lastRes, r.lastBatch = ctx.Resource.Name(), ctx.Input.BatchCount
	if r.boom {
		panic("statistic slot panics")
	}
}
func (r *verifRecorder) OnEntryBlocked(ctx *base.EntryContext, b *base.BlockError) {
	r.blocked++
	r.lastRes, r.lastBatch = ctx.Resource.Name(), ctx.Input.BatchCount
}
func (r *verifRecorder) OnCompleted(ctx *base.EntryContext) {
	r.completed++
	r.lastRes, r.lastBatch, r.lastErr, r.lastEntry = ctx.Resource.Name(), ctx.Input.BatchCount, ctx.Err(), ctx.Entry()
	r.lastRt = ctx.Rt()
}

type verifLive struct {
	inbound   bool
	uncounted bool // passed after a prepare-slot panic: the statistic slots never saw it
	e         *base.SentinelEntry
	res       int
	batch     uint32
	exited    bool
	err       error
	start     uint64 // clock at Entry
	herr      error  // error its exit handler records on it
}

func VerifC01() {
	rt.SetClockMs(2000000000000) // after the creation time of the inbound node (package init)
	if rt.Param("POOLANY") != 0 {
		rt.SetFlag("pool-any", 1)
	}
	sc := base.NewSlotChain()
	rule := &verifRuleSlot{}
	rec := &verifRecorder{}
	prep := &verifPrepSlot{}
	sc.AddStatPrepareSlot(stat.DefaultResourceNodePrepareSlot)
	sc.AddStatPrepareSlot(prep)
	prepPanics := false
	sc.AddRuleCheckSlot(rule)
	sc.AddStatSlot(stat.DefaultSlot)
	sc.AddStatSlot(rec)
	names := []string{"A", "B"}
	types := []base.TrafficType{base.Inbound, base.Outbound} // chosen per entry, independently of the resource
	var es []*verifLive
	var reqSum, passSum, blockSum, compSum, errSum, gauge [2]int64
	var inPass, inBlock, inComp, inErr, inGauge int64
	var rtSum [2]int64
	var inRt int64
	now := uint64(2000000000000)
	nErr := 0
	K, modes := rt.Param("K"), rt.Param("MODES")
	for k := 0; k < K; k++ {
		if rt.Param("TIME") != 0 {
			now += rt.U64n("dt", 6) // virtual time advances by 0..63 ms before every operation (all inside one statistic bucket)
			rt.SetClockMs(now)
		}
		op := 0
		pre := k < 2*rt.Param("PRE") // forced prefix: an entry whose prepare slot panics, then its exit (recycles the context)
		if pre {
			op = k % 2
		} else if len(es) > 0 {
			op = rt.Choice(3)
		}
		switch op {
		case 0: // Entry
			r := rt.Choice(2)
			tt := rt.Choice(2 + rt.Param("DEFTT")) // DEFTT=1: a third choice, no traffic-type option (the documented default is Outbound)
			inbound := tt == 0
			b := rt.U32n("batch", 10)
			noBatch := rt.Param("NOBATCH") != 0 && rt.Bool("noBatchOption") // no batch option: the documented default is 1
			if noBatch {
				b = 1
			}
			if pre {
				rule.mode = 4
			} else {
				rule.mode = rt.Choice(modes)
			}
			prep.boom = false
			if rule.mode == 4 { // the prepare phase panics (the rule phase is never reached)
				prep.boom, prepPanics = true, true
			}
			rec.boom = rule.mode == 5 // the request passes; a statistic slot behind the built-in one panics when told so
			p0, b0, c0 := rec.passed, rec.blocked, rec.completed
			var e *base.SentinelEntry
			var blk *base.BlockError
			opts := []EntryOption{WithSlotChain(sc)}
			if !noBatch {
				opts = append(opts, WithBatchCount(b))
			}
			if tt < 2 {
				opts = append(opts, WithTrafficType(types[tt]))
			}
			e, blk = Entry(names[r], opts...)
			rt.Reach("c01.entry")
			rt.Assert((e != nil) != (blk != nil), "every Entry yields exactly one of an entry and a block error")
			rt.Assert((e != nil) == (rule.mode != 2), "blocked iff a rule-check slot blocked; a panicking rule check passes the request")
			reqSum[r] += int64(b)
			if e != nil && prep.boom {
				// pinned upstream behaviour (TestSlotChain_Entry_With_Panic): nothing is recorded
				rt.Assert(rec.passed == p0 && rec.blocked == b0, "after a prepare-slot panic the statistic slots are not told an outcome")
				es = append(es, &verifLive{e: e, res: r, batch: b, inbound: inbound, uncounted: true, err: e.Context().Err(), start: now})
			} else if e != nil {
				rt.Assert(rec.passed == p0+1 && rec.blocked == b0 && rec.lastRes == names[r] && rec.lastBatch == b, "a passed entry is recorded as passed exactly once, on its resource with its batch")
				passSum[r] += int64(b)
				gauge[r]++
				if inbound {
					inPass += int64(b)
					inGauge++
				}
				l := &verifLive{e: e, res: r, batch: b, inbound: inbound, start: now}
				if rt.Param("HANDLER") != 0 && rt.Bool("exitHandler") {
					// an exit handler that records an error on its own entry while the entry exits
					nErr++
					l.herr = &verifErr{nErr}
					herr := l.herr
					e.WhenExit(func(en *base.SentinelEntry, ctx *base.EntryContext) error {
						TraceError(en, herr)
						return nil
					})
				}
				if rule.mode == 3 || rule.mode == 5 {
					l.err = e.Context().Err() // the internal panic is recorded as the entry's error (upstream design)
					rt.Assert(l.err != nil, "an internal panic is recorded on the entry")
				}
				es = append(es, l)
			} else {
				rt.Assert(rec.blocked == b0+1 && rec.passed == p0 && rec.lastRes == names[r] && rec.lastBatch == b, "a blocked entry is recorded as blocked exactly once, on its resource with its batch")
				blockSum[r] += int64(b)
				if inbound {
					inBlock += int64(b)
				}
			}
			rt.Assert(rec.completed == c0, "Entry completes nothing")
		case 1: // Exit, with or without an error, on any entry (also already exited ones)
			l := es[rt.Choice(len(es))]
			var err error
			if rt.Bool("withErr") {
				nErr++
				err = &verifErr{nErr}
			}
			c0 := rec.completed
			if err != nil {
				l.e.Exit(base.WithError(err))
			} else {
				l.e.Exit()
			}
			if !l.exited && l.uncounted {
				l.exited = true
				rt.Assert(rec.completed == c0, "an entry that was never recorded as passed is not reported as completed")
			} else if !l.exited {
				if err != nil {
					l.err = err
				}
				if l.herr != nil {
					l.err = l.herr // recorded by the exit handler, before the statistic slots are told
				}
				rt.Reach("c01.exit")
				rt.Assert(rec.completed == c0+1 && rec.lastEntry == l.e && rec.lastRes == names[l.res] && rec.lastBatch == l.batch, "the first Exit of a passed entry completes exactly that entry")
				rt.Assert(rec.lastErr == l.err, "the completion carries the entry's own error")
				rt.Assert(rec.lastRt == now-l.start, "the completion carries the entry's own response time")
				rtSum[l.res] += int64(now - l.start)
				if l.inbound {
					inRt += int64(now - l.start)
				}
				l.exited = true
				compSum[l.res] += int64(l.batch)
				gauge[l.res]--
				if l.err != nil {
					errSum[l.res] += int64(l.batch)
				}
				if l.inbound {
					inComp += int64(l.batch)
					inGauge--
					if l.err != nil {
						inErr += int64(l.batch)
					}
				}
			} else {
				rt.Reach("c01.late-exit")
				rt.Assert(rec.completed == c0, "Exit is idempotent: a repeated Exit completes nothing")
			}
		case 2: // TraceError on any entry
			l := es[rt.Choice(len(es))]
			nErr++
			err := &verifErr{nErr}
			TraceError(l.e, err)
			if !l.exited {
				l.err = err
			} else {
				rt.Reach("c01.late-trace")
			}
		}
		// accounting after every step
		for r := 0; r < 2; r++ {
			n := stat.GetResourceNode(names[r])
			if n == nil {
				rt.Assert(reqSum[r] == 0, "a resource that was entered has a statistic node")
				continue
			}
			rt.Assert(n.GetSum(base.MetricEventPass) == passSum[r] && n.GetSum(base.MetricEventBlock) == blockSum[r], "passed and blocked tokens are counted on the entered resource")
			rt.AssertExcept(n.GetSum(base.MetricEventPass)+n.GetSum(base.MetricEventBlock) == reqSum[r], "passed + blocked tokens equal the tokens requested", "D23", prepPanics)
			rt.Assert(n.GetSum(base.MetricEventComplete) == compSum[r] && n.GetSum(base.MetricEventError) == errSum[r], "completions and errors are counted once, on the entered resource")
			rt.Assert(n.GetSum(base.MetricEventRt) == rtSum[r], "the response time of every completed entry is added once to its resource")
			rt.Assert(int64(n.CurrentConcurrency()) == gauge[r], "reported concurrency equals the passed entries not yet exited (never negative, zero when none is in flight)")
		}
		in := stat.InboundNode()
		rt.Assert(in.GetSum(base.MetricEventPass) == inPass && in.GetSum(base.MetricEventBlock) == inBlock && in.GetSum(base.MetricEventComplete) == inComp && in.GetSum(base.MetricEventError) == inErr,
			"the inbound total counts exactly the inbound traffic")
		rt.Assert(in.GetSum(base.MetricEventRt) == inRt, "the inbound total adds the response time of every completed inbound entry once")
		rt.Assert(int64(in.CurrentConcurrency()) == inGauge, "inbound concurrency equals the inbound entries in flight")
		for _, l := range es {
			if !l.exited {
				ctx := l.e.Context()
				rt.Assert(ctx.Err() == l.err && ctx.Resource != nil && ctx.Resource.Name() == names[l.res] && ctx.Input.BatchCount == l.batch && ctx.Entry() == l.e,
					"a live entry's context is untouched by operations on other entries (late Exit/TraceError included)")
			}
		}
	}
	rt.Reach("c01.done")
}

// VerifC01DoubleExit: two goroutines exit the same passed entry at once (context switches at every
// atomic and lock operation): the entry completes exactly once, its resource ends with no entry in
// flight, and the completion is counted once.
func VerifC01DoubleExit() {
	rt.SetClockMs(2000000000000)
	sc := base.NewSlotChain()
	rec := &verifRecorder{}
	sc.AddStatPrepareSlot(stat.DefaultResourceNodePrepareSlot)
	sc.AddStatSlot(stat.DefaultSlot)
	sc.AddStatSlot(rec)
	b := rt.U32n("batch", 4)
	e, blk := Entry("DX", WithSlotChain(sc), WithBatchCount(b))
	if e == nil || blk != nil {
		rt.Assert(false, "an entry without rules is admitted")
		return
	}
	n := rt.Param("N")
	for i := 0; i < n; i++ {
		rt.Spawn(func() { e.Exit() })
	}
	rt.Join()
	rt.Reach("c01.double-exit")
	node := stat.GetResourceNode("DX")
	rt.Assert(rec.completed == 1, "concurrent Exit calls complete the entry exactly once")
	rt.Assert(node != nil && node.CurrentConcurrency() == 0, "after the entry has exited its resource has no entry in flight (never negative)")
	rt.Assert(node != nil && node.GetSum(base.MetricEventComplete) == int64(b), "the completion is counted once")
}
