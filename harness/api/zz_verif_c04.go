package api

import (
	"github.com/alibaba/sentinel-golang/core/base"
	"github.com/alibaba/sentinel-golang/core/isolation"
	"github.com/alibaba/sentinel-golang/core/stat"
	rt "github.com/alibaba/sentinel-golang/zzverif/verifrt"
)

// VerifC04Hist: K operations, each symbolically an Entry on resource A or B (symbolic batch, full
// uint32) or the Exit of any live entry, through the real api.Entry / SentinelEntry.Exit with a chain
// made of the real prepare slot, the real isolation slot and the real statistic slot (C04, history form).
func VerifC04Hist() {
	rt.SetClockMs(10000000)
	sc := base.NewSlotChain()
	sc.AddStatPrepareSlot(stat.DefaultResourceNodePrepareSlot)
	sc.AddRuleCheckSlot(isolation.DefaultSlot)
	sc.AddStatSlot(stat.DefaultSlot)
	names := []string{"A", "B"}
	thr := []uint32{rt.U32("thrA"), rt.U32("thrB")}
	rt.Assume(thr[0] >= 1 && thr[1] >= 1)
	if _, err := isolation.LoadRules([]*isolation.Rule{
		{Resource: "A", MetricType: isolation.Concurrency, Threshold: thr[0]},
		{Resource: "B", MetricType: isolation.Concurrency, Threshold: thr[1]},
	}); err != nil {
		rt.Assert(false, "LoadRules returned an error")
		return
	}
	type live struct {
		e   *base.SentinelEntry
		res int
	}
	var lives []live
	inflight := []int64{0, 0}
	K := rt.Param("K")
	for k := 0; k < K; k++ {
		if len(lives) > 0 && rt.Bool("exit") {
			i := rt.Choice(len(lives))
			l := lives[i]
			l.e.Exit()
			inflight[l.res]--
			lives = append(lives[:i:i], lives[i+1:]...)
			rt.Reach("c04.exit")
		} else {
			r := rt.Choice(2)
			b := rt.U32("batch")
			e, blk := Entry(names[r], WithSlotChain(sc), WithBatchCount(b), WithTrafficType(base.Outbound))
			want := uint64(inflight[r])+uint64(b) <= uint64(thr[r])
			rt.Reach("c04.entry")
			rt.Assert((e != nil) != (blk != nil), "exactly one of entry and block error")
			rt.Assert((e != nil) == want, "admitted iff in-flight entries + batch <= threshold")
			if blk != nil {
				rt.Assert(blk.BlockType() == base.BlockTypeIsolation, "rejected with an isolation block")
			}
			if e != nil {
				lives = append(lives, live{e, r})
				inflight[r]++
			}
		}
		for r := 0; r < 2; r++ {
			if n := stat.GetResourceNode(names[r]); n != nil {
				rt.Assert(int64(n.CurrentConcurrency()) == inflight[r], "gauge equals admitted-and-not-exited entries")
			} else {
				rt.Assert(inflight[r] == 0, "no node, nothing in flight")
			}
		}
	}
	rt.Reach("c04.done")
}
