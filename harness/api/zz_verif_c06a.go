package api

import (
	"github.com/alibaba/sentinel-golang/core/base"
	"github.com/alibaba/sentinel-golang/core/hotspot"
	"github.com/alibaba/sentinel-golang/core/stat"
	rt "github.com/alibaba/sentinel-golang/zzverif/verifrt"
)

// C06 with the hot value taken from the entry's attachments (a rule selected by ParamKey). Entries
// carry the value through WithAttachment, through a map handed to WithAttachments (one map the caller
// reuses for every call and never writes itself), or through both (the single pair overrides).
// Each admitted entry occupies one unit of the value it was admitted with and releases exactly that
// unit, whatever options later entries are built with.

type verifLive6a struct {
	e      *base.SentinelEntry
	v      int
	exited bool
}

func VerifC06Attach() {
	rt.SetClockMs(2000000000000)
	sc := base.NewSlotChain()
	sc.AddStatPrepareSlot(stat.DefaultResourceNodePrepareSlot)
	sc.AddRuleCheckSlot(hotspot.DefaultSlot)
	sc.AddStatSlot(stat.DefaultSlot)
	sc.AddStatSlot(hotspot.DefaultConcurrencyStatSlot)
	vals := []interface{}{"alice", "bob"}
	thr := rt.I64n("thr", 3)
	rule := &hotspot.Rule{Resource: "K", MetricType: hotspot.Concurrency, ParamKey: "uid", Threshold: thr, ParamsMaxCapacity: 10}
	if _, err := hotspot.LoadRules([]*hotspot.Rule{rule}); err != nil {
		rt.Assert(false, "LoadRules returned an error")
		return
	}
	shared := map[interface{}]interface{}{"uid": vals[0], "trace": "t"} // reused by the caller for every call
	var es []*verifLive6a
	var live [2]int64
	K := rt.Param("K")
	for k := 0; k < K; k++ {
		if len(es) > 0 && rt.Bool("exit") {
			l := es[rt.Choice(len(es))]
			l.e.Exit()
			if !l.exited {
				l.exited = true
				live[l.v]--
			}
			rt.Reach("c06a.exit")
		} else {
			v := 0
			var e *base.SentinelEntry
			var blk *base.BlockError
			switch rt.Choice(3) {
			case 0: // the shared map alone: its value
				e, blk = Entry("K", WithSlotChain(sc), WithAttachments(shared))
			case 1: // the shared map, then a single pair that overrides it for this entry
				v = 1
				e, blk = Entry("K", WithSlotChain(sc), WithAttachments(shared), WithAttachment("uid", vals[1]))
			case 2: // a single pair only
				v = rt.Choice(2)
				e, blk = Entry("K", WithSlotChain(sc), WithAttachment("uid", vals[v]))
			}
			rt.Reach("c06a.entry")
			want := live[v] < thr
			rt.AssertExcept((e != nil) == want, "admitted iff the entries in flight for the value are fewer than its threshold", "D18", thr == 0)
			if blk != nil {
				rt.Assert(blk.BlockType() == base.BlockTypeHotSpotParamFlow, "rejected with a hotspot block")
			}
			if e != nil {
				es = append(es, &verifLive6a{e: e, v: v})
				live[v]++
			}
		}
		rt.Assert(shared["uid"] == vals[0] && len(shared) == 2, "the map the caller hands to WithAttachments is not written by the library")
		tcs := hotspot.VerifControllers("K")
		if len(tcs) != 1 {
			rt.Assert(false, "one controller per resource")
			continue
		}
		for v := 0; v < 2; v++ {
			ptr, ok := tcs[0].BoundMetric().ConcurrencyCounter.Get(vals[v])
			var got int64
			if ok && ptr != nil {
				got = *ptr
			}
			rt.Assert(got == live[v], "the per-value in-flight figure equals the live entries admitted with that value")
		}
		for _, l := range es {
			if !l.exited {
				rt.Assert(l.e.Context().Input.Attachments["uid"] == vals[l.v], "a live entry keeps the attachment it was entered with")
			}
		}
	}
	rt.Reach("c06a.done")
}
